"""Semantics-preserving canonicalisation of the exported HIR, applied when facts are loaded.

The rules read shapes; a maintainer can change a shape without changing behaviour.  The passes below map the common
behaviour-preserving rewrites onto one canonical form *before* any rule looks at a body, so that the verdict depends on what the
code does and not on which of several equivalent spellings it uses.  Every pass is an equivalence of Rust semantics (stated per
pass); none of them knows about any property.

  int-from      `usize::from(x)` / `x.into()` between primitive integers            -> `x as usize` (lossless widening either way)
  then_some     `c.then_some(v)`                                                     -> `if c { Some(v) } else { None }`
  try_for_each  `it.try_for_each(|p| body)`                                          -> `{ for p in it { body?; } Ok(()) }`
  mem-replace   `let old = mem::replace(&mut p, v);`                                 -> `let old = p; p = v;`
  or-split      `if a || b { <diverges> }` (no else)                                 -> `if a { <diverges> } if b { <diverges> }`
  inline        a call of a private, non-recursive, return-free function of the same crate that is not one of the functions of
                the reference tree (spec/reference_functions.json) is replaced by its body, parameters substituted (place-like
                arguments) or let-bound (the rest); the statements of the inlined body are hoisted in front of the statement that
                contained the call when everything evaluated before the call in that statement is pure
  case-of-case  a match on the Option/Result built by an inlined helper's match is pushed into that match's branches
  alias         `let a = b;` with `a`, `b` immutable locals                          -> uses of `a` replaced by `b`
  param-names   parameters of reference functions are given their reference names by position (a renamed parameter is the same
                parameter)

The un-normalised tree stays available as body["hir_raw"] (C04 matches it against the MIR inventory)."""
import copy
import json
import os
import re

import hir

INT_TYS = {"u8", "u16", "u32", "u64", "u128", "usize", "i8", "i16", "i32", "i64", "i128", "isize"}
VERIF = os.path.dirname(os.path.dirname(os.path.abspath(__file__)))
_REF = None


_REFC = None


def reference_consts():
    global _REFC
    if _REFC is None:
        p = os.path.join(VERIF, "spec", "reference_consts.json")
        _REFC = json.load(open(p)) if os.path.exists(p) else {}
    return _REFC


def fold_new_consts(h, values):
    """A constant the reference tree does not have is a name for its value: `const NO_CHANGE: u8 = 0` used as `NO_CHANGE` (in an
    expression or as a pattern) is the literal 0."""
    def fn(n):
        if n.get("k") in ("def", "ppath") and n.get("path") in values:
            v = values[n["path"]]
            t = "bool" if isinstance(v, bool) else "int" if isinstance(v, int) else "str"
            return {"k": "lit", "t": t, "v": v, "ln": n.get("ln"), "ty": n.get("ty"), "norm": "const:" + n["path"]}
        return n
    return map_tree(h, fn)


def reference():
    global _REF
    if _REF is None:
        p = os.path.join(VERIF, "spec", "reference_functions.json")
        _REF = json.load(open(p)) if os.path.exists(p) else {}
    return _REF


# ---------------------------------------------------------------------------------------------------------------------
# generic traversal

def map_tree(n, fn):
    """Bottom-up rewrite of every dict node (patterns included)."""
    if isinstance(n, list):
        return [map_tree(x, fn) for x in n]
    if not isinstance(n, dict):
        return n
    out = {}
    for k, v in n.items():
        out[k] = map_tree(v, fn) if isinstance(v, (dict, list)) else v
    return fn(out)


def all_nodes(n):
    """Every dict in the tree (patterns included)."""
    stack = [n]
    while stack:
        x = stack.pop()
        if isinstance(x, dict):
            yield x
            stack.extend(v for v in x.values() if isinstance(v, (dict, list)))
        elif isinstance(x, list):
            stack.extend(x)


def nodes_outside_closures(n):
    stack = [n]
    while stack:
        x = stack.pop()
        if isinstance(x, dict):
            yield x
            if x.get("k") == "closure":
                continue
            stack.extend(v for v in x.values() if isinstance(v, (dict, list)))
        elif isinstance(x, list):
            stack.extend(x)


def pure(e):
    """No side effect and no dependence on evaluation order (may still read memory)."""
    e = hir.simp(e)
    if not isinstance(e, dict):
        return True
    k = e.get("k")
    if k in ("local", "lit", "def"):
        return True
    if k in ("field", "cast", "ref"):
        return pure(e["e"])
    if k == "un" and "callee" not in e:
        return pure(e["e"])
    if k == "bin" and "callee" not in e:
        return pure(e["l"]) and pure(e["r"])
    if k == "tuple":
        return all(pure(x) for x in e["es"])
    if k == "call" and e.get("ctor"):
        return all(pure(x) for x in e["args"])
    return False


def place_like(e):
    e = hir.simp(e)
    if not isinstance(e, dict):
        return False
    k = e.get("k")
    if k == "local":
        return True
    if k in ("field", "ref"):
        return place_like(e["e"])
    if k == "un" and e.get("op") == "Deref" and "callee" not in e:
        return place_like(e["e"])
    return False


# ---------------------------------------------------------------------------------------------------------------------
# expression-level rewrites

_FROM_RE = re.compile(r"^core::convert::num::<impl core::convert::(From|TryFrom)<(\w+)> for (\w+)>::from$")


def _int_from(n):
    if n.get("k") != "call" or len(n.get("args", [])) != 1:
        return n
    r = n.get("resolved") or ""
    m = _FROM_RE.match(r)
    if m and m.group(1) == "From" and m.group(2) in INT_TYS and m.group(3) in INT_TYS and n.get("ty") in INT_TYS:
        return {"k": "cast", "e": n["args"][0], "ln": n.get("ln"), "ty": n.get("ty"), "norm": "int-from"}
    c = n.get("callee") or ""
    # char::from(byte) is `byte as char` (every u8 is a scalar value)
    if n.get("ty") == "char" and (hir.simp(n["args"][0]) or {}).get("ty") == "u8" and \
            (c in ("core::convert::Into::into", "core::convert::From::from") or r.endswith("for char>::from") or "<char as core::convert::From<u8>>::from" in (r or c)):
        return {"k": "cast", "e": n["args"][0], "ln": n.get("ln"), "ty": "char", "norm": "int-from"}
    # x.into() resolves to <T as Into<U>>::into -> From impl; the driver reports the blanket impl, so use the types
    if c in ("core::convert::Into::into", "core::convert::From::from") and n.get("ty") in INT_TYS and \
            (hir.simp(n["args"][0]) or {}).get("ty") in INT_TYS:
        return {"k": "cast", "e": n["args"][0], "ln": n.get("ln"), "ty": n.get("ty"), "norm": "int-from"}
    return n


def _some(v, ty):
    return {"k": "call", "ctor": "core::option::Option::Some", "args": [v], "ty": ty, "ln": v.get("ln") if isinstance(v, dict) else None}


def _none(ty, ln):
    return {"k": "def", "dk": "Ctor", "path": "core::option::Option::None", "ty": ty, "ln": ln}


def _then_some(n):
    if n.get("k") == "call" and (n.get("resolved") or n.get("callee") or "").endswith("core::bool::<impl bool>::then_some") and len(n["args"]) == 2:
        c, v = n["args"]
        return {"k": "if", "c": c, "t": {"k": "block", "stmts": [], "expr": _some(v, n.get("ty")), "ty": n.get("ty"), "ln": n.get("ln")},
                "e": {"k": "block", "stmts": [], "expr": _none(n.get("ty"), n.get("ln")), "ty": n.get("ty"), "ln": n.get("ln")},
                "ty": n.get("ty"), "ln": n.get("ln"), "norm": "then_some"}
    return n


class Ids:
    def __init__(self, start=1_000_000):
        self.n = start

    def next(self):
        self.n += 1
        return self.n


def mk_try(e, ids, ty="()"):
    ln = e.get("ln")
    rid, vid = ids.next(), ids.next()
    return {"k": "match", "src": "TryDesugar", "ln": ln, "ty": ty, "norm": "synth",
            "scrut": {"k": "call", "callee": "core::ops::try_trait::Try::branch", "args": [e], "ln": ln},
            "arms": [
                {"pat": {"k": "pstruct", "path": {"k": "def", "dk": "Variant", "path": "core::ops::control_flow::ControlFlow::Break"},
                         "fields": [{"name": "0", "p": {"k": "pbind", "name": "residual", "id": rid, "mode": "BindingMode(No, Not)"}}], "rest": False},
                 "body": {"k": "ret", "ty": "!", "ln": ln,
                          "e": {"k": "call", "callee": "core::ops::try_trait::FromResidual::from_residual", "ln": ln,
                                "args": [{"k": "local", "name": "residual", "id": rid, "ln": ln}]}}},
                {"pat": {"k": "pstruct", "path": {"k": "def", "dk": "Variant", "path": "core::ops::control_flow::ControlFlow::Continue"},
                         "fields": [{"name": "0", "p": {"k": "pbind", "name": "val", "id": vid, "mode": "BindingMode(No, Not)"}}], "rest": False},
                 "body": {"k": "local", "name": "val", "id": vid, "ln": ln, "ty": ty}}]}


def mk_for(pat, it, body, ids, ln):
    iid = ids.next()
    return {"k": "match", "src": "ForLoopDesugar", "ln": ln, "ty": "()", "norm": "synth",
            "scrut": {"k": "call", "callee": "core::iter::traits::collect::IntoIterator::into_iter", "args": [it], "ln": ln},
            "arms": [{"pat": {"k": "pbind", "name": "iter", "id": iid, "mode": "BindingMode(No, Mut)"},
                      "body": {"k": "loop", "src": "ForLoop", "ln": ln, "ty": "()", "body": {"k": "block", "ln": ln, "ty": "()", "stmts": [
                          {"k": "match", "src": "ForLoopDesugar", "ln": ln, "ty": "()",
                           "scrut": {"k": "call", "callee": "core::iter::traits::iterator::Iterator::next", "ln": ln,
                                     "args": [{"k": "ref", "mut": True, "e": {"k": "local", "name": "iter", "id": iid, "ln": ln}, "ln": ln}]},
                           "arms": [{"pat": {"k": "pstruct", "path": {"k": "def", "dk": "Variant", "path": "core::option::Option::None"}, "fields": [], "rest": False},
                                     "body": {"k": "break", "ty": "!", "ln": ln}},
                                    {"pat": {"k": "pstruct", "path": {"k": "def", "dk": "Variant", "path": "core::option::Option::Some"},
                                             "fields": [{"name": "0", "p": pat}], "rest": False},
                                     "body": body}]}]}}}]}


def _try_for_each(ids):
    def fn(n):
        if n.get("k") != "call" or not (n.get("callee") or "").endswith("core::iter::traits::iterator::Iterator::try_for_each") or len(n["args"]) != 2:
            return n
        it, clo = n["args"]
        clo = hir.simp(clo)
        if clo.get("k") != "closure" or len(clo.get("params", [])) != 1:
            return n
        if any(x.get("k") == "ret" for x in nodes_outside_closures(clo["body"])):
            return n
        ln = n.get("ln")
        body = {"k": "block", "ln": ln, "ty": "()", "stmts": [mk_try(clo["body"], ids)]}
        ok = {"k": "call", "ctor": "core::result::Result::Ok", "args": [{"k": "tuple", "es": [], "ty": "()"}], "ty": n.get("ty"), "ln": ln}
        return {"k": "block", "ln": ln, "ty": n.get("ty"), "norm": "try_for_each",
                "stmts": [mk_for(clo["params"][0], it, body, ids, ln)], "expr": ok}
    return fn


def _take_while_count(ids):
    """`let n = xs.iter().copied().take_while(|&b| c).count();`  ->  `let n~pos = xs.iter().copied().position(|b| !c);
    let n = n~pos.unwrap_or(xs.len());` — the same closure calls on the same elements in the same order (both stop at the first
    element that fails `c`), and the count is the position of that element or the length."""
    def slice_of(it):
        it = hir.simp(it)
        while isinstance(it, dict) and it.get("k") == "call" and (it.get("callee") or "").split("::")[-1] in ("copied", "cloned") and len(it["args"]) == 1:
            it = hir.simp(it["args"][0])
        if isinstance(it, dict) and it.get("k") == "call" and (it.get("callee") or "") == "core::slice::<impl [T]>::iter" and len(it["args"]) == 1 and pure(it["args"][0]):
            return it["args"][0]
        return None

    def negate(e):
        e0 = hir.simp(e)
        if isinstance(e0, dict) and e0.get("k") == "block" and "expr" in e0:
            return dict(e0, expr=negate(e0["expr"]))
        if isinstance(e0, dict) and e0.get("k") == "un" and e0.get("op") == "Not" and "callee" not in e0:
            return e0["e"]
        return {"k": "un", "op": "Not", "e": e0, "ty": "bool", "ln": e0.get("ln") if isinstance(e0, dict) else None, "norm": "take-while-count"}

    def fn(n):
        if n.get("k") != "block":
            return n
        out, changed = [], False
        for st in n.get("stmts", []):
            s0 = st
            init = hir.simp(s0.get("init")) if isinstance(s0, dict) and s0.get("k") == "let" and "init" in s0 and "els" not in s0 else None
            if init is not None and s0["pat"].get("k") == "pbind" and init.get("k") == "call" and (init.get("callee") or "") == "core::iter::traits::iterator::Iterator::count" \
                    and len(init["args"]) == 1:
                tw = hir.simp(init["args"][0])
                if isinstance(tw, dict) and tw.get("k") == "call" and (tw.get("callee") or "") == "core::iter::traits::iterator::Iterator::take_while" and len(tw["args"]) == 2:
                    xs = slice_of(tw["args"][0])
                    clo = hir.simp(tw["args"][1])
                    if xs is not None and isinstance(clo, dict) and clo.get("k") == "closure" and len(clo.get("params", [])) == 1 \
                            and clo["params"][0].get("k") == "pref" and clo["params"][0]["p"].get("k") == "pbind" \
                            and not any(x.get("k") == "ret" for x in nodes_outside_closures(clo["body"])):
                        ln = s0.get("ln")
                        pid = ids.next()
                        pname = s0["pat"]["name"] + "~pos"
                        clo2 = dict(clo, params=[clo["params"][0]["p"]], body=negate(clo["body"]))
                        pos = {"k": "call", "callee": "core::iter::traits::iterator::Iterator::position", "args": [tw["args"][0], clo2], "ln": ln,
                               "ty": "core::option::Option<usize>", "norm": "take-while-count"}
                        out.append({"k": "let", "pat": {"k": "pbind", "name": pname, "id": pid, "mode": "BindingMode(No, Not)", "ty": "core::option::Option<usize>"},
                                    "init": pos, "ln": ln, "norm": "take-while-count"})
                        ln_call = {"k": "call", "callee": "core::slice::<impl [T]>::len", "args": [copy.deepcopy(xs)], "ln": ln, "ty": "usize"}
                        uo = {"k": "call", "callee": "core::option::Option::<T>::unwrap_or", "ln": ln, "ty": "usize", "norm": "take-while-count",
                              "args": [{"k": "local", "name": pname, "id": pid, "ln": ln, "ty": "core::option::Option<usize>"}, ln_call]}
                        out.append(dict(s0, init=uo, twc=True))
                        changed = True
                        continue
            out.append(st)
        if not changed:
            return n
        # a count used by the next statement only (`split_at(n)`) is written there
        res = dict(n, stmts=out)
        i = 0
        while i < len(res["stmts"]):
            st = res["stmts"][i]
            if isinstance(st, dict) and st.get("twc") and "Mut" not in str(st["pat"].get("mode", "").split(",")[-1]):
                vid = st["pat"].get("id")
                rest = res["stmts"][i + 1:] + ([res["expr"]] if "expr" in res else [])
                uses = [sum(1 for x in all_nodes(r) if x.get("k") == "local" and x.get("id") == vid) for r in rest]
                if rest and uses[0] >= 1 and not any(uses[1:]):
                    def sub(x, vid=vid, e=st["init"]):
                        return copy.deepcopy(e) if x.get("k") == "local" and x.get("id") == vid else x
                    new_next = map_tree(rest[0], sub)
                    stmts = list(res["stmts"])
                    if i + 1 < len(stmts):
                        stmts[i + 1] = new_next
                        del stmts[i]
                        res = dict(res, stmts=stmts)
                    else:
                        del stmts[i]
                        res = dict(res, stmts=stmts, expr=new_next)
                    continue
            i += 1
        return res
    return fn


def _fold_to_loop(ids):
    """`it.fold(init, |mut acc, x| { body; acc })` -> `{ let mut acc = init; for x in it { body } acc }` (the closure hands the same
    accumulator back on every path through its tail): the definition of fold."""
    def fn(n):
        if not (n.get("k") == "call" and (n.get("callee") or "") == "core::iter::traits::iterator::Iterator::fold" and len(n.get("args", [])) == 3):
            return n
        it, init, clo = n["args"][0], n["args"][1], hir.simp(n["args"][2])
        if not (isinstance(clo, dict) and clo.get("k") == "closure" and len(clo.get("params", [])) == 2 and clo["params"][0].get("k") == "pbind"):
            return n
        body = hir.simp(clo["body"])
        if not (isinstance(body, dict) and body.get("k") == "block" and "expr" in body):
            return n
        tail = hir.simp(body["expr"])
        acc = clo["params"][0]
        if not (tail.get("k") == "local" and tail.get("id") == acc.get("id")) or any(x.get("k") == "ret" for x in nodes_outside_closures(body)):
            return n
        ln = n.get("ln")
        loop_body = {"k": "block", "stmts": list(body.get("stmts", [])), "ty": "()", "ln": ln}
        acc_pat = dict(acc, mode="BindingMode(No, Mut)")
        return {"k": "block", "ln": ln, "ty": n.get("ty"), "norm": "fold-to-loop",
                "stmts": [{"k": "let", "pat": acc_pat, "init": init, "ln": ln, "norm": "fold-to-loop"},
                          mk_for(clo["params"][1], it, loop_body, ids, ln)],
                "expr": {"k": "local", "name": acc["name"], "id": acc.get("id"), "ln": ln, "ty": n.get("ty")}}
    return fn


def _filter_fusion(n):
    """`for (a, b) in it.filter(|(_, q)| c) { body }` -> `for (a, b) in it { if !c[q := b] { continue; } body }` when the closure's
    pattern names a sub-set of what the loop's pattern names, position by position (the closure sees a reference to the same item)."""
    if n.get("k") != "match" or n.get("src") != "ForLoopDesugar":
        return n
    it = n.get("scrut")
    if not (isinstance(it, dict) and it.get("k") == "call" and (it.get("callee") or "").endswith("IntoIterator::into_iter") and len(it.get("args", [])) == 1):
        return n
    inner = hir.simp(it["args"][0])
    if not (isinstance(inner, dict) and inner.get("k") == "call" and (inner.get("callee") or "") == "core::iter::traits::iterator::Iterator::filter" and len(inner["args"]) == 2):
        return n
    clo = hir.simp(inner["args"][1])
    if not (isinstance(clo, dict) and clo.get("k") == "closure" and len(clo.get("params", [])) == 1) or any(x.get("k") == "ret" for x in nodes_outside_closures(clo["body"])) \
            or not pure(clo["body"]) and any(x.get("k") in ("assign", "assignop") for x in all_nodes(clo["body"])):
        return n
    try:
        lp = hir.simp(n["arms"][0]["body"])
        m = hir.simp(lp["body"]["stmts"][0] if lp["body"].get("stmts") else lp["body"]["expr"])
        some = [a for a in m["arms"] if hir.last_seg((a["pat"].get("path") or {}).get("path")) == "Some"][0]
        sp = some["pat"]
        user_pat = sp["fields"][0]["p"] if sp["k"] == "pstruct" else sp["pats"][0]
    except (KeyError, IndexError, TypeError):
        return n

    def strip(p_):
        while isinstance(p_, dict) and p_.get("k") in ("pref", "pderef"):
            p_ = p_["p"]
        return p_
    cp_, up = strip(clo["params"][0]), strip(user_pat)
    ren = {}
    if cp_.get("k") == "pbind" and up.get("k") == "pbind":
        ren[cp_.get("id")] = up
    elif cp_.get("k") == "ptuple" and up.get("k") == "ptuple" and len(cp_["pats"]) == len(up["pats"]):
        for a_, b_ in zip(cp_["pats"], up["pats"]):
            a_, b_ = strip(a_), strip(b_)
            if a_.get("k") == "pwild":
                continue
            if a_.get("k") == "pbind" and b_.get("k") == "pbind":
                ren[a_.get("id")] = b_
            else:
                return n
    elif cp_.get("k") != "pwild":
        return n

    def sub(x):
        if x.get("k") == "local" and x.get("id") in ren:
            return dict(x, name=ren[x["id"]]["name"], id=ren[x["id"]].get("id"))
        return x
    cond = map_tree(copy.deepcopy(clo["body"]), sub)
    ln = n.get("ln")
    c0 = hir.simp(cond)
    while isinstance(c0, dict) and c0.get("k") == "block" and not c0.get("stmts") and "expr" in c0:
        c0 = hir.simp(c0["expr"])
    neg = c0["e"] if (isinstance(c0, dict) and c0.get("k") == "un" and c0.get("op") == "Not" and "callee" not in c0) else \
        {"k": "un", "op": "Not", "e": cond, "ty": "bool", "ln": ln, "norm": "filter-fusion"}
    guard = {"k": "if", "c": neg,
             "t": {"k": "block", "stmts": [{"k": "continue", "ty": "!", "ln": ln}], "ty": "!", "ln": ln}, "ty": "()", "ln": ln, "norm": "filter-fusion"}
    new = copy.deepcopy(n)
    new["scrut"]["args"][0] = inner["args"][0]
    lp = hir.simp(new["arms"][0]["body"])
    m = lp["body"]["stmts"][0] if lp["body"].get("stmts") else lp["body"]["expr"]
    some = [a for a in m["arms"] if hir.last_seg((a["pat"].get("path") or {}).get("path")) == "Some"][0]
    body = some["body"]
    if isinstance(body, dict) and body.get("k") == "block":
        some["body"] = dict(body, stmts=[guard] + list(body.get("stmts", [])))
    else:
        some["body"] = {"k": "block", "stmts": [guard], "expr": body, "ty": body.get("ty") if isinstance(body, dict) else None, "ln": ln}
    new["norm"] = "filter-fusion"
    return new


def _position_by_ref(n):
    """`xs.iter().position(|&b| c)` -> `xs.iter().copied().position(|b| c)`: the closure sees the same values in the same order
    (the pattern `&b` copies the element out of the reference)."""
    if not (n.get("k") == "call" and (n.get("callee") or "") == "core::iter::traits::iterator::Iterator::position" and len(n.get("args", [])) == 2):
        return n
    it, clo = hir.simp(n["args"][0]), hir.simp(n["args"][1])
    if not (isinstance(it, dict) and it.get("k") == "call" and (it.get("callee") or "") == "core::slice::<impl [T]>::iter" and len(it["args"]) == 1):
        return n
    if not (isinstance(clo, dict) and clo.get("k") == "closure" and len(clo.get("params", [])) == 1 and clo["params"][0].get("k") == "pref"
            and clo["params"][0]["p"].get("k") == "pbind"):
        return n
    copied = {"k": "call", "callee": "core::iter::traits::iterator::Iterator::copied", "args": [n["args"][0]], "ln": n.get("ln"), "norm": "position-by-ref"}
    return dict(n, args=[copied, dict(clo, params=[clo["params"][0]["p"]])], norm="position-by-ref")


def _map_fusion(n):
    """`for x in it.map(|p| e) { body }` -> `for p in it { let x = e; body }` (the closure runs once per item, just before the body)."""
    if n.get("k") != "match" or n.get("src") != "ForLoopDesugar":
        return n
    it = n.get("scrut")
    if not (isinstance(it, dict) and it.get("k") == "call" and (it.get("callee") or "").endswith("IntoIterator::into_iter") and len(it.get("args", [])) == 1):
        return n
    inner = hir.simp(it["args"][0])
    if not (isinstance(inner, dict) and inner.get("k") == "call" and (inner.get("callee") or "") == "core::iter::traits::iterator::Iterator::map" and len(inner["args"]) == 2):
        return n
    clo = hir.simp(inner["args"][1])
    if not (isinstance(clo, dict) and clo.get("k") == "closure" and len(clo.get("params", [])) == 1) or any(x.get("k") == "ret" for x in nodes_outside_closures(clo["body"])):
        return n
    try:
        lp = hir.simp(n["arms"][0]["body"])
        m = hir.simp(lp["body"]["stmts"][0] if lp["body"].get("stmts") else lp["body"]["expr"])
        some = [a for a in m["arms"] if hir.last_seg((a["pat"].get("path") or {}).get("path")) == "Some"][0]
        sp = some["pat"]
        user_pat = sp["fields"][0]["p"] if sp["k"] == "pstruct" else sp["pats"][0]
    except (KeyError, IndexError, TypeError):
        return n
    new = copy.deepcopy(n)
    new["scrut"]["args"][0] = inner["args"][0]
    lp = hir.simp(new["arms"][0]["body"])
    m = lp["body"]["stmts"][0] if lp["body"].get("stmts") else lp["body"]["expr"]
    some = [a for a in m["arms"] if hir.last_seg((a["pat"].get("path") or {}).get("path")) == "Some"][0]
    if some["pat"]["k"] == "pstruct":
        some["pat"]["fields"][0]["p"] = copy.deepcopy(clo["params"][0])
    else:
        some["pat"]["pats"][0] = copy.deepcopy(clo["params"][0])
    body = some["body"]
    let = {"k": "let", "pat": user_pat, "init": clo["body"], "ln": clo.get("ln"), "norm": "map-fusion"}
    if isinstance(body, dict) and body.get("k") == "block":
        some["body"] = dict(body, stmts=[let] + list(body.get("stmts", [])))
    else:
        some["body"] = {"k": "block", "stmts": [let], "expr": body, "ty": body.get("ty") if isinstance(body, dict) else None, "ln": n.get("ln")}
    new["norm"] = "map-fusion"
    return new


# ---------------------------------------------------------------------------------------------------------------------
# statement-level rewrites

def _or_split(n):
    if n.get("k") != "block":
        return n
    out = []
    changed = False
    for s in n.get("stmts", []):
        s0 = hir.simp(s)
        if isinstance(s0, dict) and s0.get("k") == "if" and "e" not in s0 and hir.diverges(s0["t"]):
            parts = hir.split_or(s0["c"])
            if len(parts) > 1 and all(hir.simp(p).get("k") != "letexpr" for p in parts):
                for p in parts:
                    out.append({"k": "if", "c": p, "t": copy.deepcopy(s0["t"]), "ty": s0.get("ty"), "ln": s0.get("ln"), "norm": "or-split"})
                changed = True
                continue
        out.append(s)
    if changed:
        n = dict(n, stmts=out)
    return n


def _mem_replace(n):
    """`let old = mem::replace(&mut place, v);` -> `let old = place; place = v;` (and the statement form without a binding)."""
    if n.get("k") != "block":
        return n
    out = []
    changed = False
    for s in n.get("stmts", []):
        s0 = hir.simp(s)
        call, pat = None, None
        if isinstance(s0, dict) and s0.get("k") == "let" and "els" not in s0 and "init" in s0:
            c = hir.simp(s0["init"])
            if isinstance(c, dict) and c.get("k") == "call" and (c.get("resolved") or c.get("callee")) == "core::mem::replace":
                call, pat = c, s0["pat"]
            elif isinstance(c, dict) and c.get("k") == "call" and (c.get("resolved") or c.get("callee")) == "core::mem::take" and c.get("ty") in INT_TYS \
                    and len(c.get("args", [])) == 1:
                # mem::take of an integer place is mem::replace(place, 0)
                call, pat = dict(c, args=[c["args"][0], {"k": "lit", "t": "int", "v": 0, "ty": c.get("ty"), "ln": c.get("ln")}]), s0["pat"]
        elif isinstance(s0, dict) and s0.get("k") == "call" and (s0.get("resolved") or s0.get("callee")) == "core::mem::replace":
            call = s0
        if call is not None and len(call["args"]) == 2:
            r = hir.simp(call["args"][0])
            if isinstance(r, dict) and r.get("k") == "ref" and r.get("mut") and pure(r["e"]) and hir.place_str(r["e"]) and pure(call["args"][1]):
                if pat is not None:
                    out.append(dict(s0, init=copy.deepcopy(r["e"]), norm="mem-replace"))
                out.append({"k": "assign", "l": r["e"], "r": call["args"][1], "ln": call.get("ln"), "ty": "()", "norm": "mem-replace"})
                changed = True
                continue
        out.append(s)
    return dict(n, stmts=out) if changed else n


# ---------------------------------------------------------------------------------------------------------------------
# inlining of private helpers that the reference tree does not have

class Inliner:
    def __init__(self, crate_name, bodies, known):
        self.crate = crate_name
        self.by_path = {}
        for b in bodies:
            self.by_path.setdefault(b["path"], []).append(b)
        self.known = known
        self.ids = Ids(2_000_000)
        self._cand = {}

    def candidate(self, path):
        if path in self._cand:
            return self._cand[path]
        ok = None
        bs = self.by_path.get(path, [])
        if len(bs) == 1 and path not in self.known:
            b = bs[0]
            if b.get("kind") in ("Fn", "AssocFn") and "hir" in b and str(b.get("vis", "")).startswith("Restricted") and not b.get("unsafe_fn") \
                    and all(p.get("k") == "pbind" and "Ref" not in str(p.get("mode", "")) for p in b.get("params", [])) \
                    and not any(x.get("k") == "call" and (x.get("resolved") or x.get("callee")) == path for x in all_nodes(b["hir"])):
                ok = b
        self._cand[path] = ok
        return ok

    def expand(self, root, depth=0, params=()):
        if depth > 3:
            return root
        if depth == 0:
            self.names = {x["name"] for x in list(all_nodes(root)) + list(all_nodes(list(params)))
                          if x.get("k") in ("local", "pbind") and isinstance(x.get("name"), str)}

        def fn(n):
            if n.get("k") != "call" or n.get("ctor"):
                return n
            path = n.get("resolved") or n.get("callee") or ""
            b = self.candidate(path)
            if b is None or len(b["params"]) != len(n.get("args", [])):
                return n
            return self.instantiate(b, n, depth)
        return map_tree(root, fn)

    def instantiate(self, b, call, depth):
        off = self.ids.next() * 1000
        # the helper's body after the expression-level rewrites every body gets first (integer `From`, explicit `?`, ...)
        body = copy.deepcopy(b.get("hir_pre_norm") or (b["hir_raw"] if "hir_raw" in b else b["hir"]))
        params = copy.deepcopy(b["params"])
        tag = f"~{self.ids.next() % 100000}"
        taken = getattr(self, "names", set())
        mine = set()
        for x in list(all_nodes(body)) + list(all_nodes(params)):
            if x.get("k") in ("local", "pbind") and isinstance(x.get("id"), int):
                x["id"] += off
                # a local of the helper whose name the caller (or an earlier inlined helper) also uses gets a name that cannot
                # collide with or shadow it; the others keep theirs
                if isinstance(x.get("name"), str) and x["name"] != "self":
                    if x["name"] in taken:
                        x["name"] = x["name"] + tag
                    mine.add(x["name"])
        taken |= mine
        sub, lets = {}, []
        for p, a in zip(params, call["args"]):
            if "Mut" not in str(p.get("mode", "")).split(",")[-1] and place_like(a):
                sub[p["id"]] = a
            else:
                lets.append({"k": "let", "pat": p, "init": a, "ln": call.get("ln"), "inl": b["path"]})

        def subst(n):
            if n.get("k") == "local" and n.get("id") in sub:
                r = copy.deepcopy(sub[n["id"]])
                return r
            return n
        body = map_tree(body, subst)
        label = None
        if any(x.get("k") == "ret" for x in nodes_outside_closures(body)):
            # `return e` of the helper leaves the inlined body only: a labelled block with `break 'label e`
            label = f"inl{self.ids.next()}"

            def unret(n, inside_closure=False):
                if isinstance(n, list):
                    return [unret(x, inside_closure) for x in n]
                if not isinstance(n, dict):
                    return n
                if n.get("k") == "closure":
                    return n
                m = {k: (unret(v) if isinstance(v, (dict, list)) else v) for k, v in n.items()}
                if m.get("k") == "ret":
                    r = {"k": "break", "label": label, "to_block": True, "ty": "!", "ln": m.get("ln")}
                    if "e" in m:
                        r["e"] = m["e"]
                    return r
                return m
            body = unret(body)
        for x in all_nodes(body):
            if "k" in x:
                x.setdefault("inl", b["path"])
        body = self.expand(body, depth + 1)
        body = hir.simp(body)
        stmts = lets + (list(body.get("stmts", [])) if body.get("k") == "block" and "unsafe" not in body else [])
        if body.get("k") == "block" and "unsafe" not in body:
            expr = body.get("expr")
        else:
            expr = body
        out = {"k": "block", "stmts": stmts, "ty": call.get("ty"), "ln": call.get("ln"), "inlined": b["path"]}
        if label is not None:
            out["label"] = label
        if expr is not None:
            out["expr"] = expr
        return out


def _first_inlined(s):
    """The inlined block evaluated first and unconditionally in statement `s`, with a setter to replace it; None if anything
    impure is evaluated before it or it sits under a branch / loop / closure."""
    def go(e, setter):
        if not isinstance(e, dict):
            return None, True
        k = e.get("k")
        if k == "block":
            if e.get("inlined") and not e.get("label"):
                return (e, setter), False
            if not e.get("stmts") and "expr" in e and "unsafe" not in e:
                return go(e["expr"], lambda v, e=e: e.__setitem__("expr", v))
            return None, False
        if k in ("local", "lit", "def"):
            return None, True
        seq = []
        if k == "let":
            if "init" in e and "els" not in e:
                seq = [("init", None)]
            else:
                return None, False
        elif k in ("field", "cast", "ref", "ret"):
            seq = [("e", None)] if "e" in e else []
        elif k == "un":
            seq = [("e", None)]
        elif k == "bin":
            if e.get("op") in ("And", "Or") and "callee" not in e:
                seq = [("l", None)]          # the right operand is conditional
                r, p = go(e["l"], lambda v, e=e: e.__setitem__("l", v))
                return r, False
            seq = [("l", None), ("r", None)]
        elif k in ("assign", "assignop"):
            if not pure(e["l"]):
                return None, False
            seq = [("r", None)]
        elif k == "call":
            seq = [("args", i) for i in range(len(e.get("args", [])))]
            if "f" in e:
                return None, False
        elif k == "tuple":
            seq = [("es", i) for i in range(len(e["es"]))]
        elif k == "index":
            seq = [("e", None), ("i", None)]
        elif k == "match":
            r, p = go(e["scrut"], lambda v, e=e: e.__setitem__("scrut", v))
            return r, False
        elif k == "if":
            r, p = go(e["c"], lambda v, e=e: e.__setitem__("c", v))
            return r, False
        elif k == "letexpr":
            r, p = go(e["init"], lambda v, e=e: e.__setitem__("init", v))
            return r, False
        elif k == "struct":
            seq = [("fields", i) for i in range(len(e.get("fields", [])))]
        else:
            return None, False
        for key, i in seq:
            if key == "fields":
                child = e["fields"][i]["e"]
                st = (lambda v, e=e, i=i: e["fields"][i].__setitem__("e", v))
            elif i is None:
                child = e[key]
                st = (lambda v, e=e, key=key: e.__setitem__(key, v))
            else:
                child = e[key][i]
                st = (lambda v, e=e, key=key, i=i: e[key].__setitem__(i, v))
            r, is_pure = go(child, st)
            if r is not None:
                return r, False
            if not is_pure:
                return None, False
        return None, pure(e)
    r, _ = go(s, None)
    return r


def hoist(root):
    """Move the statements of inlined blocks in front of the statement that evaluates them first."""
    def fn(n):
        if n.get("k") != "block":
            return n
        seq = list(n.get("stmts", []))
        tail = n.get("expr")
        out = []
        items = seq + ([tail] if tail is not None else [])
        res = []
        for idx, s in enumerate(items):
            is_tail = tail is not None and idx == len(items) - 1
            guard = 0
            while guard < 50:
                guard += 1
                if isinstance(s, dict) and s.get("k") == "block" and s.get("inlined") and "unsafe" not in s and not s.get("label"):
                    # the statement itself is an inlined block
                    res.extend(s.get("stmts", []))
                    if "expr" in s:
                        s = s["expr"]
                        continue
                    s = None
                    break
                hit = _first_inlined(s) if isinstance(s, dict) else None
                if hit is None:
                    break
                blk, setter = hit
                if setter is None:
                    break
                res.extend(blk.get("stmts", []))
                setter(blk["expr"] if "expr" in blk else {"k": "tuple", "es": [], "ty": "()", "ln": blk.get("ln")})
            if s is None:
                if is_tail:
                    tail = None
                continue
            if is_tail:
                tail = s
            else:
                res.append(s)
        m = dict(n)
        m["stmts"] = res
        if tail is not None:
            m["expr"] = tail
        else:
            m.pop("expr", None)
        return m
    return map_tree(root, fn)


def case_of_case(root):
    """`match (match s { p => Some(e), q => None }) { Some(c) => A, None => B }`  ->  `match s { p => { let c = e; A }, q => B }`
    when the inner match came from an inlined helper: the helper's Option/Result protocol disappears again."""
    def leaves_ok(e):
        e = hir.simp(e)
        if not isinstance(e, dict):
            return False
        k = e.get("k")
        if k == "match" and e.get("src") not in ("TryDesugar", "ForLoopDesugar"):
            return all(leaves_ok(a["body"]) for a in e["arms"])
        if k == "if" and "e" in e:
            return leaves_ok(e["t"]) and leaves_ok(e["e"])
        if k == "block":
            return "expr" in e and leaves_ok(e["expr"])
        if k == "call" and e.get("ctor", "").split("::")[-1] in ("Some", "Ok", "Err") and len(e["args"]) == 1:
            return True
        if k == "def" and (e.get("path") or "").endswith("Option::None"):
            return True
        return False

    def push(e, arms):
        e0 = hir.simp(e)
        k = e0.get("k")
        if k == "match":
            return dict(e0, arms=[dict(a, body=push(a["body"], arms)) for a in e0["arms"]], ty=arms["ty"])
        if k == "if":
            return dict(e0, t=push(e0["t"], arms), e=push(e0["e"], arms), ty=arms["ty"])
        if k == "block":
            return dict(e0, expr=push(e0["expr"], arms), ty=arms["ty"])
        if k == "call":
            tag = e0["ctor"].split("::")[-1]
            pat, body = arms[tag]
            body = copy.deepcopy(body)
            if pat is None:
                return body
            return {"k": "block", "stmts": [{"k": "let", "pat": copy.deepcopy(pat), "init": e0["args"][0], "ln": e0.get("ln"), "inl": e0.get("inl", True)}],
                    "expr": body, "ty": arms["ty"], "ln": e0.get("ln")}
        tag = "None"
        return copy.deepcopy(arms[tag][1])

    def fn(n):
        if n.get("k") != "match" or n.get("src") in ("TryDesugar", "ForLoopDesugar"):
            return n
        sc = hir.simp(n["scrut"])
        if not (isinstance(sc, dict) and sc.get("k") in ("match", "if") and sc.get("inl") and leaves_ok(sc)):
            return n
        arms = {"ty": n.get("ty")}
        for a in n["arms"]:
            if "guard" in a:
                return n
            p = a["pat"]
            k = p.get("k")
            seg = hir.last_seg(hir.pat_path(p) or "")
            if k in ("pts", "pstruct") and seg in ("Some", "Ok", "Err"):
                subs = p.get("pats") if k == "pts" else [f["p"] for f in p.get("fields", [])]
                if len(subs) != 1 or subs[0].get("k") not in ("pbind", "pwild"):
                    return n
                arms[seg] = (subs[0] if subs[0].get("k") == "pbind" else None, a["body"])
            elif (k == "ppath" or (k in ("pts", "pstruct") and not (p.get("pats") or p.get("fields")))) and seg == "None":
                arms["None"] = (None, a["body"])
            else:
                return n
        needed = set()
        for x in all_nodes(sc):
            if x.get("k") == "call" and x.get("ctor", "").split("::")[-1] in ("Some", "Ok", "Err"):
                needed.add(x["ctor"].split("::")[-1])
            if x.get("k") == "def" and (x.get("path") or "").endswith("Option::None"):
                needed.add("None")
        if not needed <= set(arms):
            return n
        out = push(sc, arms)
        out["norm"] = "case-of-case"
        return out
    return map_tree(root, fn)


def map_of_inlined(root):
    """`'h: { .. break 'h Some(v) .. ; None }.map(|p| e)`, the block being an inlined helper  ->  the same block yielding
    `Some({ let p = v; e })`: the helper's Option protocol and the caller's `map` cancel, and `e` is seen where `v` is known."""
    def exits(blk):
        out = []
        lab = blk.get("label")

        def go(n, top):
            if isinstance(n, dict):
                if n.get("k") == "closure":
                    return
                if n.get("k") == "break" and n.get("label") == lab:
                    out.append(("break", n))
                for k_, v in n.items():
                    if k_ != "ty":
                        go(v, False)
            elif isinstance(n, list):
                for x in n:
                    go(x, False)
        go({k_: v for k_, v in blk.items() if k_ != "expr"}, True)
        go(blk.get("expr"), False)
        return out

    def is_opt(v):
        v = hir.simp(v) if isinstance(v, dict) else v
        if not isinstance(v, dict):
            return None
        if v.get("k") == "call" and v.get("ctor", "").endswith("Option::Some") and len(v["args"]) == 1:
            return "Some"
        if v.get("k") == "def" and (v.get("path") or "").endswith("Option::None"):
            return "None"
        return None

    def fn(n):
        if not (n.get("k") == "call" and (n.get("callee") or "") == "core::option::Option::<T>::map" and len(n.get("args", [])) == 2):
            return n
        blk, clo = hir.simp(n["args"][0]), hir.simp(n["args"][1])
        if not (isinstance(blk, dict) and blk.get("k") == "block" and blk.get("label") and blk.get("inlined") and "expr" in blk):
            return n
        if not (isinstance(clo, dict) and clo.get("k") == "closure" and len(clo.get("params", [])) == 1) \
                or any(x.get("k") == "ret" for x in nodes_outside_closures(clo["body"])):
            return n
        ex = exits(blk)
        if is_opt(blk["expr"]) is None or any("e" not in b_ or is_opt(b_["e"]) is None for _, b_ in ex):
            return n
        new = copy.deepcopy(blk)

        def mapped(v):
            v = hir.simp(v)
            if is_opt(v) == "None":
                return dict(v, ty=n.get("ty"))
            inner = {"k": "block", "stmts": [{"k": "let", "pat": copy.deepcopy(clo["params"][0]), "init": v["args"][0], "ln": v.get("ln"), "inl": blk.get("inlined")}],
                     "expr": copy.deepcopy(clo["body"]), "ty": clo["body"].get("ty") if isinstance(clo["body"], dict) else None, "ln": v.get("ln")}
            return dict(v, args=[inner], ty=n.get("ty"))
        for _, b_ in exits(new):
            b_["e"] = mapped(b_["e"])
        new["expr"] = mapped(new["expr"])
        new["ty"] = n.get("ty")
        new["norm"] = "map-of-inlined"
        return new
    return map_tree(root, fn)


def alias(root, params):
    """`let a = b;` with immutable a and b: a is another name for b."""
    modes = {}
    for x in list(all_nodes(root)) + list(all_nodes(params)):
        if x.get("k") == "pbind" and "id" in x:
            modes[x["id"]] = str(x.get("mode", ""))
    assigned = set()
    for x in all_nodes(root):
        if x.get("k") in ("assign", "assignop"):
            l = hir.simp(x["l"])
            if isinstance(l, dict) and l.get("k") == "local":
                assigned.add(l.get("id"))
    ren = {}

    def immut(i):
        return i in modes and modes[i] == "BindingMode(No, Not)" and i not in assigned

    def written_in(nodes, i):
        for t in nodes:
            for x in all_nodes(t):
                if x.get("k") in ("assign", "assignop"):
                    l = hir.simp(x["l"])
                    if isinstance(l, dict) and l.get("k") == "local" and l.get("id") == i:
                        return True
                if x.get("k") == "ref" and x.get("mut"):
                    l = hir.simp(x["e"])
                    if isinstance(l, dict) and l.get("k") == "local" and l.get("id") == i:
                        return True
                if x.get("k") == "call" and str(x.get("recv_adj_ty", "")).startswith("&mut") and x.get("args"):
                    l = hir.simp(x["args"][0])
                    if isinstance(l, dict) and l.get("k") == "local" and l.get("id") == i:
                        return True
        return False

    def fn(n):
        if n.get("k") != "block":
            return n
        out = []
        seq = n.get("stmts", [])
        for idx, s in enumerate(seq):
            if isinstance(s, dict) and s.get("k") == "let" and "els" not in s and s.get("pat", {}).get("k") == "pbind" and "init" in s:
                init = hir.simp(s["init"])
                rest = seq[idx + 1:] + ([n["expr"]] if "expr" in n else [])
                if isinstance(init, dict) and init.get("k") == "local" and immut(s["pat"].get("id")) and \
                        (immut(init.get("id")) or (init.get("id") in modes and "Ref" not in modes[init.get("id")] and not written_in(rest, init.get("id")))):
                    ren[s["pat"]["id"]] = init
                    continue
                if isinstance(init, dict) and immut(s["pat"].get("id")) and \
                        ((init.get("k") == "lit" and (s.get("norm") in ("unrolled", "specialised") or s.get("inl"))) or
                         (init.get("k") == "def" and init.get("dk") in ("Const", "AssocConst")) or
                         (s.get("inl") and init.get("k") == "ref" and not init.get("mut") and hir.simp(init["e"]).get("k") == "def"
                          and hir.simp(init["e"]).get("dk") in ("Const", "AssocConst", "Static"))):
                    ren[s["pat"]["id"]] = init          # an element of an unrolled const table: the constant itself
                    continue
            out.append(s)
        return dict(n, stmts=out)
    root = map_tree(root, fn)
    if not ren:
        return root

    def resolve(i, seen=()):
        t = ren[i]
        while t.get("id") in ren and t.get("id") not in seen:
            seen = seen + (t.get("id"),)
            t = ren[t["id"]]
        return t

    def sub(n):
        if n.get("k") == "local" and n.get("id") in ren:
            t = resolve(n["id"])
            if t.get("k") != "local":
                return dict(copy.deepcopy(t), ln=n.get("ln", t.get("ln")))
            return dict(n, name=t["name"], id=t["id"])
        return n
    return map_tree(root, sub)


def _variant_pat(p_, name):
    """`Ok(x)` / `Err(x)` / `Some(x)` with a plain binding (or `_`): the sub-pattern; `None`: True; else None."""
    if not isinstance(p_, dict):
        return None
    path = (p_.get("path") or {}).get("path", "") if isinstance(p_.get("path"), dict) else str(p_.get("path", ""))
    if not path.endswith("::" + name):
        return None
    if p_.get("k") == "ppath":
        return True
    if p_.get("k") == "pts" and len(p_.get("pats", [])) == 1 and p_["pats"][0].get("k") in ("pbind", "pwild") and "sub" not in p_["pats"][0] \
            and "Ref" not in str(p_["pats"][0].get("mode", "")):
        return p_["pats"][0]
    return None


def _returns_same_failure(body, binder):
    """Is `body` exactly `return Err(e)` (e the given binder) / `return None` (binder True)?"""
    body = hir.simp(body)
    while isinstance(body, dict) and body.get("k") == "block" and "label" not in body and "unsafe" not in body:
        st = body.get("stmts", [])
        if len(st) == 1 and "expr" not in body:
            body = hir.simp(st[0])
        elif not st and "expr" in body:
            body = hir.simp(body["expr"])
        else:
            return False
    if not (isinstance(body, dict) and body.get("k") == "ret" and "e" in body):
        return False
    r = hir.simp(body["e"])
    if binder is True:
        return r.get("k") == "def" and str(r.get("path", "")).endswith("Option::None")
    if binder.get("k") != "pbind":
        return False
    return r.get("k") == "call" and str(r.get("ctor", "")).endswith("Result::Err") and len(r.get("args", [])) == 1 \
        and hir.simp(r["args"][0]).get("k") == "local" and hir.simp(r["args"][0]).get("id") == binder.get("id")


def _mk_try(inner, ty, ids, ln):
    """The `?` desugaring around `inner` (shape as rustc writes it; the rules recognise it through hir.try_inner)."""
    rid, vid = ids.next() * 1000 + 1, ids.next() * 1000 + 2
    mac = ["desugaring of operator `?`"]
    return {"k": "match", "src": "TryDesugar", "norm": "explicit-propagation",
            "scrut": {"k": "call", "callee": "core::ops::try_trait::Try::branch", "args": [inner], "ln": ln, "mac": mac, "ty": "core::ops::control_flow::ControlFlow<_>"},
            "arms": [{"pat": {"k": "pstruct", "path": {"k": "def", "dk": "Variant", "path": "core::ops::control_flow::ControlFlow::Break"},
                              "fields": [{"name": "0", "p": {"k": "pbind", "name": "residual", "id": rid, "mode": "BindingMode(No, Not)", "ty": "_"}}], "rest": False},
                      "body": {"k": "ret", "e": {"k": "call", "callee": "core::ops::try_trait::FromResidual::from_residual",
                                                 "args": [{"k": "local", "name": "residual", "id": rid, "ln": ln, "mac": mac, "ty": "_"}], "ln": ln, "mac": mac, "ty": "_"},
                               "ln": ln, "mac": mac, "ty": "!"}, "ln": ln, "mac": mac},
                     {"pat": {"k": "pstruct", "path": {"k": "def", "dk": "Variant", "path": "core::ops::control_flow::ControlFlow::Continue"},
                              "fields": [{"name": "0", "p": {"k": "pbind", "name": "val", "id": vid, "mode": "BindingMode(No, Not)", "ty": ty}}], "rest": False},
                      "body": {"k": "local", "name": "val", "id": vid, "ln": ln, "ty": ty}, "ln": ln, "mac": mac}],
            "ln": ln, "ty": ty}


def _explicit_try(ids):
    """Propagation written out is `?`:  `match x { Ok(v) => v, Err(e) => return Err(e) }`, `match x { Some(v) => v, None => return None }`
    -> `x?`;  `if let Err(e) = x { return Err(e); }` -> `x?;`.  (`return Err(e)` type-checks only when e already has the function's
    error type, and `?` converts through the identity `From` then.)"""
    def fn(n):
        k = n.get("k")
        if k == "match" and n.get("src") == "Normal" and len(n.get("arms", [])) == 2 and not any(a.get("guard") for a in n["arms"]):
            for good, bad, fail in (("Ok", "Err", None), ("Some", "None", True)):
                for a, b_ in (n["arms"], n["arms"][::-1]):
                    v, e = _variant_pat(a["pat"], good), _variant_pat(b_["pat"], bad)
                    if v is None or v is True or e is None or v.get("k") != "pbind":
                        continue
                    body = hir.simp(a["body"])
                    if not (body.get("k") == "local" and body.get("id") == v.get("id")):
                        continue
                    if (fail is True and e is True and _returns_same_failure(b_["body"], True)) or \
                            (fail is None and e is not True and _returns_same_failure(b_["body"], e)):
                        return _mk_try(n["scrut"], n.get("ty"), ids, n.get("ln"))
        if k == "match" and n.get("src") == "Normal" and len(n.get("arms", [])) >= 3:
            # `match x { Ok(p) if g => a, Ok(q) => b, Err(e) => return Err(e) }` -> `match x? { p if g => a, q => b }`
            for good, bad in (("Ok", "Err"), ("Some", "None")):
                fails = [a for a in n["arms"] if not a.get("guard") and _variant_pat(a["pat"], bad) is not None and
                         _returns_same_failure(a["body"], _variant_pat(a["pat"], bad))]
                rest = [a for a in n["arms"] if not any(a is f for f in fails)]
                if len(fails) != 1 or not rest:
                    continue
                subs = []
                for a in rest:
                    p_ = a["pat"]
                    path = (p_.get("path") or {}).get("path", "") if isinstance(p_.get("path"), dict) else ""
                    if p_.get("k") == "pts" and path.endswith("::" + good) and len(p_.get("pats", [])) == 1:
                        subs.append(dict(a, pat=p_["pats"][0]))
                    else:
                        subs = None
                        break
                if subs:
                    return dict(n, scrut=_mk_try(n["scrut"], "_", ids, n.get("ln")), arms=subs, norm="explicit-propagation")
        if k == "if" and "e" not in n:
            c = hir.simp(n["c"])
            if isinstance(c, dict) and c.get("k") == "letexpr":
                e = _variant_pat(c["pat"], "Err")
                if e is not None and e is not True and _returns_same_failure(n["t"], e):
                    t = _mk_try(c["init"], "_", ids, n.get("ln"))
                    return {"k": "block", "stmts": [t], "ln": n.get("ln"), "ty": "()", "norm": "explicit-propagation"}
                if _variant_pat(c["pat"], "None") is True and _returns_same_failure(n["t"], True):
                    t = _mk_try(c["init"], "_", ids, n.get("ln"))
                    return {"k": "block", "stmts": [t], "ln": n.get("ln"), "ty": "()", "norm": "explicit-propagation"}
        return n
    return fn


def unroll_const_loops(root, const_bodies, ids, limit=32):
    """`for PAT in TABLE { BODY }` over a const array of at most `limit` pure elements, with no break/continue in BODY, is
    `{ let PAT = TABLE[0]; BODY } { let PAT = TABLE[1]; BODY } ...` — the table and the statements it stands for read the same."""
    def elements(e):
        e = hir.peel(hir.simp(e))
        if e.get("k") == "call" and not e.get("ctor") and len(e.get("args", [])) == 1 and \
                str(e.get("resolved") or e.get("callee") or "").split("::")[-1] in ("iter", "into_iter"):
            e = hir.peel(hir.simp(e["args"][0]))
        if e.get("k") != "def" or e.get("path") not in const_bodies:
            return None
        arr = hir.simp(const_bodies[e["path"]])
        while isinstance(arr, dict) and arr.get("k") == "ref":
            arr = hir.simp(arr["e"])
        if not (isinstance(arr, dict) and arr.get("k") == "array" and 0 < len(arr.get("es", [])) <= limit and all(pure(x) for x in arr["es"])):
            return None
        return arr["es"], e

    def fn(n):
        if not (n.get("k") == "match" and n.get("src") == "ForLoopDesugar"):
            return n
        try:
            fl = hir.for_loop(n)
        except Exception:
            return n
        if not fl:
            return n
        pat, it, body = fl
        got = elements(it)
        if got is None:
            return n
        es, tab = got
        by_ref = str(hir.simp(it).get("ty", "")).startswith("&") or "Iter<" in str(hir.simp(it).get("ty", "")) or \
            (hir.simp(it).get("k") == "call" and str(hir.simp(it).get("callee", "")).endswith("::iter"))
        for x in nodes_outside_closures(body):
            if x.get("k") in ("break", "continue"):
                return n          # (a `return` leaves the function in both forms)
        out = []
        for el in es:
            off = ids.next() * 1000
            p2, b2 = copy.deepcopy(pat), copy.deepcopy(body)
            bound = {x.get("id") for x in list(all_nodes(p2)) + list(all_nodes(b2)) if x.get("k") == "pbind" and isinstance(x.get("id"), int)}
            for x in list(all_nodes(p2)) + list(all_nodes(b2)):
                if x.get("k") in ("local", "pbind") and x.get("id") in bound:
                    x["id"] += off
            init = copy.deepcopy(el)
            if by_ref:
                init = {"k": "ref", "mut": False, "e": init, "ln": n.get("ln"), "ty": "&" + str(el.get("ty", "_"))}
            out.append({"k": "block", "stmts": [{"k": "let", "pat": p2, "init": init, "ln": n.get("ln"), "norm": "unrolled"}, b2],
                        "ln": n.get("ln"), "ty": "()", "norm": "unrolled", "unrolled_from": tab["path"]})
        return {"k": "block", "stmts": out, "ln": n.get("ln"), "ty": "()", "norm": "unrolled"}
    return map_tree(root, fn)


def _range_binding(p_):
    """The single `name @ lo..=hi` (integer literals, at most 16 values) inside pattern p_: (path to it, pbind, lo, hi) or None."""
    found = []

    def go(q, path):
        if not isinstance(q, dict):
            return
        if q.get("k") == "pbind" and isinstance(q.get("sub"), dict) and q["sub"].get("k") == "prange":
            r = q["sub"]
            lo, hi = r.get("lo"), r.get("hi")
            if isinstance(lo, dict) and isinstance(hi, dict) and lo.get("k") == "lit" and hi.get("k") == "lit" and \
                    isinstance(lo.get("v"), int) and isinstance(hi.get("v"), int) and lo.get("t") == "int":
                top = hi["v"] if r.get("incl") else hi["v"] - 1
                if 0 <= top - lo["v"] < 16:
                    found.append((path, q, lo, top))
            return
        if q.get("k") == "pbind" and "sub" in q:
            found.append(None)
            return
        for key in ("pats",):
            for i, x in enumerate(q.get(key, []) or []):
                go(x, path + [(key, i)])
        for i, f in enumerate(q.get("fields", []) or []):
            if isinstance(f, dict) and "p" in f:
                go(f["p"], path + [("fields", i)])
        if isinstance(q.get("p"), dict):
            go(q["p"], path + [("p", None)])
    go(p_, [])
    if len(found) == 1 and found[0] is not None:
        return found[0]
    return None


def specialise_range_arms(root, ids):
    """An arm `(.., k @ 2..=5) => body` is the arms `(.., 2) => body[k:=2]`, ..., `(.., 5) => body[k:=5]`; a `match` on a literal
    is the body of the first arm the literal matches.  A dispatch on `k` inside the body then reads like the arms written out."""
    def lit_matches(p_, v):
        k = p_.get("k")
        if k == "pwild":
            return True
        if k == "lit":
            return p_.get("v") == v if isinstance(p_.get("v"), int) else None
        if k == "prange":
            lo, hi = p_.get("lo"), p_.get("hi")
            if all(isinstance(x, dict) and x.get("k") == "lit" and isinstance(x.get("v"), int) for x in (lo, hi)):
                return lo["v"] <= v <= (hi["v"] if p_.get("incl") else hi["v"] - 1)
            return None
        if k == "por":
            rs = [lit_matches(x, v) for x in p_.get("pats", [])]
            return None if any(r is None for r in rs) else any(rs)
        return None

    def split(n):
        if n.get("k") != "match" or n.get("src") not in ("Normal", None):
            return n
        arms, changed = [], False
        for a in n.get("arms", []):
            rb = None if a.get("guard") else _range_binding(a["pat"])
            if rb is None:
                arms.append(a)
                continue
            path, bind, lo, top = rb
            for v in range(lo["v"], top + 1):
                off = ids.next() * 1000
                a2 = copy.deepcopy(a)
                tgt = a2["pat"]
                parent, key = None, None
                for kname, i in path:
                    parent, key = tgt, (kname, i)
                    tgt = tgt[kname][i]["p"] if kname == "fields" else (tgt["p"] if kname == "p" else tgt[kname][i])
                litp = dict(copy.deepcopy(lo), v=v)
                if parent is None:
                    a2["pat"] = litp
                elif key[0] == "fields":
                    parent["fields"][key[1]]["p"] = litp
                elif key[0] == "p":
                    parent["p"] = litp
                else:
                    parent[key[0]][key[1]] = litp
                bid = bind.get("id")
                bound = {x.get("id") for x in list(all_nodes(a2["pat"])) + list(all_nodes(a2["body"]))
                         if x.get("k") == "pbind" and isinstance(x.get("id"), int)}

                def sub(x, bid=bid, v=v, off=off, bound=bound):
                    if x.get("k") == "local" and x.get("id") == bid:
                        return {"k": "lit", "t": "int", "v": v, "ty": x.get("ty"), "ln": x.get("ln"), "norm": "specialised"}
                    if x.get("k") in ("local", "pbind") and x.get("id") in bound:
                        return dict(x, id=x["id"] + off)
                    return x
                a2["body"] = map_tree(a2["body"], sub)
                a2["pat"] = map_tree(a2["pat"], sub)
                a2["norm"] = "specialised"
                arms.append(a2)
            changed = True
        return dict(n, arms=arms) if changed else n

    def fold(n):
        if n.get("k") != "match" or n.get("src") not in ("Normal", None):
            return n
        sc = hir.simp(n["scrut"])
        if not (isinstance(sc, dict) and sc.get("k") == "lit" and isinstance(sc.get("v"), int) and sc.get("t") == "int"):
            return n
        for a in n.get("arms", []):
            if a.get("guard"):
                return n
            m = lit_matches(a["pat"], sc["v"])
            if m is None:
                return n
            if m:
                return a["body"]
        return n
    root = map_tree(root, split)
    return map_tree(root, fold)


def _matches_literals(n):
    """`matches!(x, "a" | "b")` — `match x { "a" | "b" => true, _ => false }` with a pure scrutinee and literal alternatives — is
    `x == "a" || x == "b"`."""
    if n.get("k") != "match" or n.get("src") not in ("Normal", None) or len(n.get("arms", [])) != 2:
        return n
    a0, a1 = n["arms"]
    if a0.get("guard") or a1.get("guard") or a1["pat"].get("k") != "pwild" or not pure(n["scrut"]):
        return n
    b0, b1 = hir.simp(a0["body"]), hir.simp(a1["body"])
    if not (b0.get("k") == "lit" and b0.get("t") == "bool" and b1.get("k") == "lit" and b1.get("t") == "bool" and b0["v"] != b1["v"]):
        return n
    alts = a0["pat"].get("pats") if a0["pat"].get("k") == "por" else [a0["pat"]]
    if not alts or not all(q.get("k") == "lit" and q.get("t") in ("str", "int", "char") for q in alts):
        return n
    out = None
    for q in alts:
        t = {"k": "bin", "op": "Eq", "l": copy.deepcopy(n["scrut"]), "r": dict(q), "ln": n.get("ln"), "ty": "bool", "norm": "matches-literals"}
        out = t if out is None else {"k": "bin", "op": "Or", "l": out, "r": t, "ln": n.get("ln"), "ty": "bool", "norm": "matches-literals"}
    if not b0["v"]:
        out = {"k": "un", "op": "Not", "e": out, "ln": n.get("ln"), "ty": "bool", "norm": "matches-literals"}
    return out


def bool_tuple_match(root):
    """`match (c, x) { (false, _) => a, (true, P) => b, (true, _) => d }` (first component a bool tested by literals / `_`, the other
    components pure) is `if c { match x { P => b, _ => d } } else { a }`; a match on a pure scrutinee whose arms are unit variants
    and a final `_` is an if-chain on `x == Variant`."""
    def is_bool_pat(p_):
        return p_.get("k") == "pwild" or (p_.get("k") == "lit" and p_.get("t") == "bool")

    def chain(scrut, arms, ln, ty):
        # arms: [(pattern, body)] over a pure scrutinee -> if-chain, or None
        if not arms:
            return None
        p0, b0 = arms[0]
        if p0.get("k") == "pwild":
            return b0
        if p0.get("k") == "ppath" and len(arms) >= 2:
            rest = chain(scrut, arms[1:], ln, ty)
            if rest is None:
                return None
            cond = {"k": "bin", "op": "Eq", "l": copy.deepcopy(scrut), "r": {"k": "def", "dk": "Variant", "path": p0["path"], "ln": ln, "ty": scrut.get("ty")},
                    "ln": ln, "ty": "bool", "norm": "variant-test"}
            return {"k": "if", "c": cond, "t": b0, "e": rest, "ln": ln, "ty": ty, "norm": "bool-tuple-match"}
        return None

    def fn(n):
        if n.get("k") != "match" or n.get("src") not in ("Normal", None) or any(a.get("guard") for a in n.get("arms", [])):
            return n
        sc = hir.simp(n["scrut"])
        if not (isinstance(sc, dict) and sc.get("k") == "tuple" and len(sc.get("es", [])) == 2 and str(hir.simp(sc["es"][0]).get("ty", "")) == "bool"
                and pure(sc["es"][1])):
            return n
        arms = n["arms"]
        if not all(a["pat"].get("k") == "ptuple" and len(a["pat"].get("pats", [])) == 2 and is_bool_pat(a["pat"]["pats"][0]) for a in arms):
            return n
        branches = {}
        for val in (True, False):
            sel = [(a["pat"]["pats"][1], a["body"]) for a in arms
                   if a["pat"]["pats"][0].get("k") == "pwild" or bool(a["pat"]["pats"][0].get("v")) == val]
            # bodies are shared between the two sides only through `_` arms: copy them
            sel = [(q, copy.deepcopy(b_)) for q, b_ in sel]
            br = chain(hir.simp(sc["es"][1]), sel, n.get("ln"), n.get("ty"))
            if br is None:
                return n
            branches[val] = br
        return {"k": "if", "c": sc["es"][0], "t": branches[True], "e": branches[False], "ln": n.get("ln"), "ty": n.get("ty"), "norm": "bool-tuple-match"}
    return map_tree(root, fn)


def variant_match_to_if(root):
    """`match place { Enum::V => a, other => b }` (pure place scrutinee, a unit variant, then `_` or a plain binding)  ->
    `if place == Enum::V { a } else { let other = place; b }`. Not part of the crate-wide pipeline: applied by rules whose
    reference form is the `if` (the strip scanners)."""
    def fn(n):
        if n.get("k") != "match" or n.get("src") not in ("Normal", None) or len(n.get("arms", [])) != 2 or any(a.get("guard") for a in n["arms"]):
            return n
        sc = hir.simp(n["scrut"])
        a0, a1 = n["arms"]
        if not (isinstance(sc, dict) and pure(sc) and a0["pat"].get("k") == "ppath"):
            return n
        p1 = a1["pat"]
        if p1.get("k") == "pwild":
            other = a1["body"]
        elif p1.get("k") == "pbind" and not p1.get("sub") and not p1.get("by_ref"):
            let = {"k": "let", "pat": copy.deepcopy(p1), "init": copy.deepcopy(sc), "ln": n.get("ln"), "norm": "variant-match"}
            body = a1["body"]
            if isinstance(body, dict) and body.get("k") == "block" and not body.get("label"):
                other = dict(body, stmts=[let] + list(body.get("stmts", [])))
            else:
                other = {"k": "block", "stmts": [let], "expr": body, "ty": n.get("ty"), "ln": n.get("ln")}
        else:
            return n
        cond = {"k": "bin", "op": "Eq", "l": copy.deepcopy(sc), "r": {"k": "def", "dk": "Variant", "path": a0["pat"]["path"], "ln": n.get("ln"), "ty": sc.get("ty")},
                "ln": n.get("ln"), "ty": "bool", "norm": "variant-test"}
        return {"k": "if", "c": cond, "t": a0["body"], "e": other, "ln": n.get("ln"), "ty": n.get("ty"), "norm": "variant-match"}
    return map_tree(root, fn)


def _index_through_ref(n):
    """`(&a)[i]` is `a[i]` (indexing auto-dereferences); arises when a slice parameter of an inlined helper was given `&TABLE`."""
    if n.get("k") == "index" and isinstance(n.get("e"), dict):
        b_ = n["e"]
        while isinstance(b_, dict) and b_.get("k") == "block" and not b_.get("stmts") and "expr" in b_ and "label" not in b_ and "unsafe" not in b_:
            b_ = b_["expr"]
        if isinstance(b_, dict) and b_.get("k") == "ref" and not b_.get("mut") and isinstance(b_.get("e"), dict):
            out = dict(n, e=b_["e"])
            if "base_ty" in out and str(out["base_ty"]).startswith("&"):
                out["base_ty"] = str(out["base_ty"])[1:]
            return out
    return n


def fold_constant_ifs(root):
    """`if false { A } else { B }` is B, `if true { A } else { B }` is A, `if false { A }` is nothing (after helpers returning a
    constant were inlined; `cfg!(..)` is such a literal too)."""
    def lit_bool(c):
        c = hir.simp(c)
        while isinstance(c, dict) and c.get("k") == "un" and c.get("op") == "Not" and "callee" not in c:
            inner = lit_bool(c["e"])
            return None if inner is None else (not inner)
        if isinstance(c, dict) and c.get("k") == "lit" and c.get("t") == "bool":
            return bool(c["v"])
        if isinstance(c, dict) and c.get("k") == "block" and not c.get("stmts") and "expr" in c and "label" not in c:
            return lit_bool(c["expr"])
        return None

    def fn(n):
        if n.get("k") != "if":
            return n
        v = lit_bool(n["c"])
        if v is None:
            return n
        if v:
            return n["t"]
        if "e" in n:
            return n["e"]
        return {"k": "tuple", "es": [], "ty": "()", "ln": n.get("ln"), "norm": "dead-branch"}

    def sweep(n):
        if n.get("k") == "block" and any(isinstance(x, dict) and hir.simp(x).get("norm") == "dead-branch" for x in n.get("stmts", [])):
            return dict(n, stmts=[x for x in n["stmts"] if not (isinstance(x, dict) and hir.simp(x).get("norm") == "dead-branch")])
        return n
    return map_tree(map_tree(root, fn), sweep)


def split_tuple_lets(root):
    """`let (a, b) = (x, y);` with pure x, y -> `let a = x; let b = y;` (locals are id-resolved, so a swap stays a swap)."""
    def fn(n):
        if n.get("k") != "block":
            return n
        out, changed = [], False
        for s in n.get("stmts", []):
            if isinstance(s, dict) and s.get("k") == "let" and "els" not in s and isinstance(s.get("init"), dict):
                p_, i_ = s["pat"], hir.simp(s["init"])
                subs = p_.get("pats") if p_.get("k") == "ptuple" else None
                if subs is not None and i_.get("k") == "tuple" and len(i_.get("es", [])) == len(subs) and len(subs) > 0 \
                        and all(q.get("k") == "pbind" and "sub" not in q for q in subs) and \
                        (all(pure(x) for x in i_["es"]) or
                         not ({q.get("name") for q in subs} & {y.get("name") for x in i_["es"] for y in all_nodes(x) if y.get("k") == "local"})):
                    # (elements are evaluated left to right in both forms; binding a plain name has no effect of its own)
                    for q, x in zip(subs, i_["es"]):
                        out.append({"k": "let", "pat": q, "init": x, "ln": s.get("ln"), "norm": "unrolled" if s.get("norm") == "unrolled" else "tuple-let"})
                    changed = True
                    continue
            out.append(s)
        return dict(n, stmts=out) if changed else n
    return map_tree(root, fn)


def inline_local_closures(root, ids):
    """`let f = |p, q| body;` whose only uses are calls `f(a, b)` (never passed on, no `return` inside) -> each call becomes
    `{ let p = a; let q = b; body }` and the binding goes: a closure applied on the spot is its body (it reads and writes the
    captured places at the moment of the call either way)."""
    cands = {}
    for n in all_nodes(root):
        if n.get("k") == "let" and "els" not in n and n.get("pat", {}).get("k") == "pbind" and isinstance(n.get("init"), dict):
            c = hir.simp(n["init"])
            if isinstance(c, dict) and c.get("k") == "closure" and all(q.get("k") == "pbind" and "Ref" not in str(q.get("mode", "")) for q in c.get("params", [])) \
                    and not any(x.get("k") == "ret" for x in nodes_outside_closures(c["body"])):
                cands[n["pat"]["id"]] = (n, c)
    if not cands:
        return root
    uses = {i: 0 for i in cands}
    calls = {i: 0 for i in cands}
    for n in all_nodes(root):
        if n.get("k") == "local" and n.get("id") in uses:
            uses[n["id"]] += 1
        if n.get("k") == "call" and isinstance(n.get("f"), dict):
            f_ = hir.simp(n["f"])
            if f_.get("k") == "local" and f_.get("id") in calls and len(n.get("args", [])) == len(cands[f_["id"]][1].get("params", [])):
                calls[f_["id"]] += 1
    good = {i for i in cands if uses[i] == calls[i] and calls[i] > 0}
    if not good:
        return root

    def fn(n):
        if n.get("k") == "call" and isinstance(n.get("f"), dict):
            f_ = hir.simp(n["f"])
            if f_.get("k") == "local" and f_.get("id") in good:
                clo = cands[f_["id"]][1]
                off = ids.next() * 1000
                params, body = copy.deepcopy(clo["params"]), copy.deepcopy(clo["body"])
                bound = {x.get("id") for x in list(all_nodes(params)) + list(all_nodes(body)) if x.get("k") == "pbind" and isinstance(x.get("id"), int)}
                for x in list(all_nodes(params)) + list(all_nodes(body)):
                    if x.get("k") in ("local", "pbind") and x.get("id") in bound:
                        x["id"] += off
                stmts = [{"k": "let", "pat": q, "init": a, "ln": n.get("ln"), "inl": "closure"} for q, a in zip(params, n["args"])]
                return {"k": "block", "stmts": stmts, "expr": body, "ln": n.get("ln"), "ty": n.get("ty"), "norm": "closure-applied"}
        if n.get("k") == "block" and any(isinstance(s_, dict) and s_.get("k") == "let" and s_.get("pat", {}).get("id") in good for s_ in n.get("stmts", [])):
            return dict(n, stmts=[s_ for s_ in n["stmts"] if not (isinstance(s_, dict) and s_.get("k") == "let" and s_.get("pat", {}).get("id") in good)])
        return n
    return map_tree(root, fn)


def split_struct_lets(root):
    """`let Struct(a, b, c) = *p;` / `let Struct { x, y } = v;` on a place (irrefutable: no `else`) -> `let a = p.0; let b = p.1; ...`
    (Copy fields read from a place; the order of the reads is immaterial)."""
    def fields_of(p_):
        if p_.get("k") == "pts":
            return [(str(i), q) for i, q in enumerate(p_.get("pats", []))]
        if p_.get("k") == "pstruct" and not p_.get("rest", False) or p_.get("k") == "pstruct":
            return [(f["name"], f["p"]) for f in p_.get("fields", [])]
        return None

    def fn(n):
        if n.get("k") != "block":
            return n
        out, changed = [], False
        for s in n.get("stmts", []):
            if isinstance(s, dict) and s.get("k") == "let" and "els" not in s and isinstance(s.get("init"), dict) and s["pat"].get("k") in ("pts", "pstruct"):
                fs = fields_of(s["pat"])
                init = hir.simp(s["init"])
                base = init
                while isinstance(base, dict) and base.get("k") == "un" and base.get("op") == "Deref" and "callee" not in base:
                    base = hir.simp(base["e"])
                if fs and place_like(init) and base.get("k") in ("local", "field") and \
                        all(q.get("k") in ("pbind", "pwild") and "sub" not in q and "Ref" not in str(q.get("mode", "")) for _, q in fs):
                    for name, q in fs:
                        if q.get("k") == "pwild":
                            continue
                        out.append({"k": "let", "pat": q, "init": {"k": "field", "name": name, "e": copy.deepcopy(init), "ln": s.get("ln"), "ty": q.get("ty")},
                                    "ln": s.get("ln"), "norm": "struct-let"})
                    changed = True
                    continue
            out.append(s)
        return dict(n, stmts=out) if changed else n
    return map_tree(root, fn)


def untag(root, params):
    """A helper local that was renamed `x~N` because the caller had an `x` gets its name back when that `x` is gone (aliased away,
    substituted) — names then do not depend on whether the code sits in a helper."""
    by_base = {}
    for x in list(all_nodes(root)) + list(all_nodes(list(params))):
        if x.get("k") in ("local", "pbind") and isinstance(x.get("name"), str):
            by_base.setdefault(x["name"].split("~")[0], set()).add(x["name"])
    ren = {next(iter(v)): base for base, v in by_base.items() if len(v) == 1 and "~" in next(iter(v))}
    if not ren:
        return root

    def fn(n):
        if n.get("k") in ("local", "pbind") and n.get("name") in ren:
            return dict(n, name=ren[n["name"]])
        return n
    return map_tree(root, fn)


def rename_params(b, ref_names):
    """Give the parameters of a reference function their reference names (by position)."""
    ps = b.get("params", [])
    if len(ps) != len(ref_names):
        return
    ren = {}
    for p, want in zip(ps, ref_names):
        if p.get("k") == "pbind" and want and p.get("name") != want:
            ren[p["id"]] = want
            p["name"] = want
    if not ren:
        return

    def fn(n):
        if n.get("k") in ("local", "pbind") and n.get("id") in ren:
            return dict(n, name=ren[n["id"]])
        return n
    b["hir"] = map_tree(b["hir"], fn)


# ---------------------------------------------------------------------------------------------------------------------
# integer temporaries

def _arith(e):
    """Pure integer/boolean expression without calls or indexing: locals, literals, consts, fields, casts, operators."""
    e = hir.simp(e)
    if not isinstance(e, dict):
        return False
    k = e.get("k")
    if k in ("local", "lit", "def"):
        return True
    if k in ("field", "cast"):
        return _arith(e["e"])
    if k == "un" and "callee" not in e and e.get("op") in ("Deref", "Not", "Neg"):
        return _arith(e["e"])
    if k == "bin" and "callee" not in e:
        return _arith(e["l"]) and _arith(e["r"])
    if k == "index" and "callee" not in e and e.get("ty") in INTLIKE:
        return _place(e["e"]) is not None and _arith(e["i"])
    return False


def _place(e):
    """(root local id, field path) of a place expression — the path stops at the first index; None if not a place over a local."""
    e = hir.simp(e)
    path = []
    while isinstance(e, dict):
        k = e.get("k")
        if k == "field":
            path.append(e["name"])
            e = hir.simp(e["e"])
        elif k == "index":
            path = []
            e = hir.simp(e["e"])
        elif k == "un" and e.get("op") == "Deref" and "callee" not in e:
            e = hir.simp(e["e"])
        elif k == "local":
            return (e.get("id"), tuple(reversed(path)))
        else:
            return None
    return None


def _roots(e):
    """The places (root local id, field path) an expression mentions: `self.len` -> (self, ('len',)); a bare local -> (id, ())."""
    out = set()

    def go(n):
        if isinstance(n, list):
            for x in n:
                go(x)
            return
        if not isinstance(n, dict):
            return
        if n.get("k") in ("field", "local"):
            p_ = _place(n)
            if p_ is not None:
                out.add(p_)
                return
        for v in n.values():
            if isinstance(v, (dict, list)):
                go(v)
    go(e)
    return out


def _overlap(ws, rs):
    """Does a written place overlap a read one (same root, one field path a prefix of the other)?"""
    for (i, p_) in ws:
        for (j, q) in rs:
            if i == j and (p_[:len(q)] == q or q[:len(p_)] == p_):
                return True
    return False


def _writes(s):
    """Places that statement `s` may write through (assignments, &mut borrows, calls receiving a &mut local or a &mut receiver)."""
    w = set()
    for x in all_nodes(s):
        k = x.get("k")
        if k in ("assign", "assignop"):
            p_ = _place(x["l"])
            w |= {p_} if p_ is not None else {(i, ()) for (i, _) in _roots(x["l"])}
        elif k == "ref" and x.get("mut"):
            p_ = _place(x["e"])
            w |= {p_} if p_ is not None else {(i, ()) for (i, _) in _roots(x["e"])}
        elif k == "call" and not x.get("ctor"):
            for a in x.get("args", []):
                a0 = hir.simp(a)
                if isinstance(a0, dict) and a0.get("k") == "local" and str(a0.get("ty", "")).startswith("&mut"):
                    w.add((a0.get("id"), ()))
            if str(x.get("recv_adj_ty", "")).startswith("&mut") and x.get("args"):
                p_ = _place(x["args"][0])
                w |= {p_} if p_ is not None else {(i, ()) for (i, _) in _roots(x["args"][0])}
    return w


def _uses_in(s, i):
    return [x for x in all_nodes(s) if x.get("k") == "local" and x.get("id") == i]


def _under_loop_or_closure(s, i):
    def go(n, inside):
        if isinstance(n, list):
            return any(go(x, inside) for x in n)
        if not isinstance(n, dict):
            return False
        if n.get("k") == "local" and n.get("id") == i:
            return inside
        ins = inside or n.get("k") in ("loop", "closure")
        return any(go(v, ins) for v in n.values() if isinstance(v, (dict, list)))
    return go(s, False)


INTLIKE = INT_TYS | {"bool"}


def cast_to_uses(root):
    """`let n = e as T;` (immutable) -> `let n = e;` with every use `n` replaced by `n as T`: where the widening is written
    does not matter."""
    def fn(n):
        if n.get("k") != "block":
            return n
        seq = list(n.get("stmts", []))
        tail = n.get("expr")
        for idx, s in enumerate(seq):
            if not (isinstance(s, dict) and s.get("k") == "let" and "els" not in s and s.get("pat", {}).get("k") == "pbind" and "init" in s):
                continue
            if s["pat"].get("mode") != "BindingMode(No, Not)":
                continue
            init = hir.simp(s["init"])
            if not (isinstance(init, dict) and init.get("k") == "cast" and init.get("ty") in INT_TYS and (hir.simp(init["e"]) or {}).get("ty") in INT_TYS):
                continue
            i, ty = s["pat"]["id"], init["ty"]
            inner_ty = hir.simp(init["e"]).get("ty")

            def sub(x, i=i, ty=ty, inner_ty=inner_ty):
                if x.get("k") == "local" and x.get("id") == i and not x.get("_castwrap"):
                    return {"k": "cast", "e": dict(x, ty=inner_ty, _castwrap=True), "ty": ty, "ln": x.get("ln"), "norm": "cast-to-uses"}
                return x
            seq[idx] = dict(s, init=init["e"], pat=dict(s["pat"], ty=inner_ty))
            for j in range(idx + 1, len(seq)):
                seq[j] = map_tree(seq[j], sub)
            if tail is not None:
                tail = map_tree(tail, sub)
        m = dict(n, stmts=seq)
        if tail is not None:
            m["expr"] = tail
        return m
    return map_tree(root, fn)


def subst_int_lets(root):
    """`let t = <pure integer expression>;` (immutable, not used under a loop/closure, nothing it reads is written before its
    last use) -> uses replaced by the expression."""
    def fn(n):
        if n.get("k") != "block":
            return n
        seq = list(n.get("stmts", []))
        tail = n.get("expr")
        idx = 0
        while idx < len(seq):
            s = seq[idx]
            idx += 1
            if not (isinstance(s, dict) and s.get("k") == "let" and "els" not in s and s.get("pat", {}).get("k") == "pbind" and "init" in s):
                continue
            if s["pat"].get("mode") != "BindingMode(No, Not)" or s["pat"].get("ty") not in INTLIKE:
                continue
            init = hir.simp(s["init"])
            if not _arith(init) or init.get("k") in ("lit", "local", "def"):
                continue
            i = s["pat"]["id"]
            rest = seq[idx:] + ([tail] if tail is not None else [])
            users = [j for j, t in enumerate(rest) if _uses_in(t, i)]
            if not users or any(_under_loop_or_closure(t, i) for t in rest):
                continue
            roots = _roots(init)
            ok = True
            for j, t in enumerate(rest[:users[-1] + 1]):
                w = _writes(t)
                if not _overlap(w, roots):
                    continue
                if j in users and isinstance(t, dict) and t.get("k") in ("assign", "assignop") and not _overlap(_writes(t["r"]), roots) \
                        and not any(x.get("k") in ("call",) and not x.get("ctor") for x in all_nodes(t)) and j == users[-1]:
                    continue      # the statement's own store happens after its operands were read
                ok = False
                break
            if not ok:
                continue

            def sub(x, i=i, init=init):
                if x.get("k") == "local" and x.get("id") == i:
                    r = copy.deepcopy(init)
                    for y in all_nodes(r):       # every use carries a copy of one source expression (one panic site, not several)
                        y.setdefault("copy_of", i)
                    return r
                return x
            new_rest = [map_tree(t, sub) for t in rest]
            seq = seq[:idx - 1] + (new_rest[:-1] if tail is not None else new_rest)
            if tail is not None:
                tail = new_rest[-1]
            idx -= 1
        m = dict(n, stmts=seq)
        if tail is not None:
            m["expr"] = tail
        return m
    return map_tree(root, fn)


def _first_use(s, i):
    """If the first thing statement `s` evaluates (everything before it being pure) is the local with id `i`, return a setter
    that replaces that occurrence; else None."""
    def go(e, setter):
        if not isinstance(e, dict):
            return None, True
        k = e.get("k")
        if k == "local":
            return ((e, setter), False) if e.get("id") == i else (None, True)
        if k in ("lit", "def"):
            return None, True
        if k == "block":
            if not e.get("stmts") and "expr" in e and "unsafe" not in e and "label" not in e:
                return go(e["expr"], lambda v, e=e: e.__setitem__("expr", v))
            return None, False
        seq = []
        if k == "let":
            if "init" in e and "els" not in e:
                seq = [("init", None)]
            else:
                return None, False
        elif k in ("field", "cast", "ref", "ret", "un"):
            seq = [("e", None)] if "e" in e else []
        elif k == "bin":
            if e.get("op") in ("And", "Or") and "callee" not in e:
                r, p = go(e["l"], lambda v, e=e: e.__setitem__("l", v))
                return r, False
            seq = [("l", None), ("r", None)]
        elif k in ("assign", "assignop"):
            if not pure(e["l"]):
                return None, False
            seq = [("r", None)]
        elif k == "call":
            if "f" in e:
                return None, False
            seq = [("args", j) for j in range(len(e.get("args", [])))]
        elif k == "tuple":
            seq = [("es", j) for j in range(len(e["es"]))]
        elif k == "index":
            seq = [("e", None), ("i", None)]
        elif k == "match":
            r, p = go(e["scrut"], lambda v, e=e: e.__setitem__("scrut", v))
            return r, False
        elif k == "if":
            r, p = go(e["c"], lambda v, e=e: e.__setitem__("c", v))
            return r, False
        elif k == "letexpr":
            r, p = go(e["init"], lambda v, e=e: e.__setitem__("init", v))
            return r, False
        else:
            return None, False
        for key, j in seq:
            if j is None:
                child = e[key]
                st = (lambda v, e=e, key=key: e.__setitem__(key, v))
            else:
                child = e[key][j]
                st = (lambda v, e=e, key=key, j=j: e[key].__setitem__(j, v))
            r, is_pure = go(child, st)
            if r is not None:
                return r, False
            if not is_pure:
                return None, False
        return None, pure(e)
    r, _ = go(s, None)
    return r


def mut_ref_alias(root):
    """`let r = &mut a.b;` (an immutable binding of a mutable borrow of a field path of a local)  ->  every later `r` is `&mut a.b`,
    every `*r` is `a.b`. While `r` is live the borrow checker lets nothing else touch `a.b`, and `r` is never re-pointed, so the
    name and the place are interchangeable."""
    def field_path(e):
        e = hir.simp(e)
        while isinstance(e, dict) and e.get("k") == "field":
            e = hir.simp(e["e"])
        return isinstance(e, dict) and e.get("k") == "local"

    def fn(n):
        if n.get("k") != "block":
            return n
        seq = list(n.get("stmts", []))
        tail = n.get("expr")
        for idx, s_ in enumerate(seq):
            if not (isinstance(s_, dict) and s_.get("k") == "let" and "els" not in s_ and s_.get("pat", {}).get("k") == "pbind" and "init" in s_):
                continue
            if "Mut" in str(s_["pat"].get("mode", "")).split(",")[-1] or "Ref" in str(s_["pat"].get("mode", "")):
                continue
            init = hir.simp(s_["init"])
            if not (isinstance(init, dict) and init.get("k") == "ref" and init.get("mut") and field_path(init["e"]) and hir.simp(init["e"]).get("k") == "field"):
                continue
            vid = s_["pat"].get("id")
            place = init["e"]

            def sub(x, vid=vid, init=init, place=place):
                if x.get("k") == "un" and x.get("op") == "Deref" and "callee" not in x:
                    inner = hir.simp(x["e"])
                    if isinstance(inner, dict) and inner.get("k") == "local" and inner.get("id") == vid:
                        return copy.deepcopy(place)
                if x.get("k") == "local" and x.get("id") == vid:
                    return copy.deepcopy(init)
                return x
            rest = [map_tree(t, sub) for t in seq[idx + 1:]]
            new = dict(n, stmts=seq[:idx] + rest)
            if tail is not None:
                new["expr"] = map_tree(tail, sub)
            new["norm"] = "mut-ref-alias"
            return fn(new)
        return n
    return map_tree(root, fn)


def single_use_temps(root):
    """`let t = E; S` where S evaluates `t` first and `t` occurs nowhere else -> S with E in place of t (E may have effects:
    it is still evaluated at the same moment).  Not part of the global normalisation (it would rename too much of what the rules
    report); rules that expect a single expression apply it locally (anstyle_common.single_expr)."""
    def fn(n):
        if n.get("k") != "block":
            return n
        seq = list(n.get("stmts", []))
        tail = n.get("expr")
        changed = True
        while changed:
            changed = False
            items = seq + ([tail] if tail is not None else [])
            for idx, s in enumerate(seq):
                if not (isinstance(s, dict) and s.get("k") == "let" and "els" not in s and s.get("pat", {}).get("k") == "pbind" and "init" in s):
                    continue
                if "Ref" in str(s["pat"].get("mode", "")) or idx + 1 >= len(items):
                    continue
                init = hir.simp(s["init"])
                reborrow = isinstance(init, dict) and init.get("k") == "ref" and place_like(hir.peel(init))
                if not (isinstance(init, dict) and init.get("k") == "call" and not init.get("ctor")) and not reborrow:
                    continue          # only call results and reborrows: other temporaries are handled by the integer / alias passes
                i = s["pat"]["id"]
                uses = sum(len(_uses_in(t, i)) for t in items[idx + 1:])
                if uses != 1:
                    continue
                nxt = copy.deepcopy(items[idx + 1])
                hit = _first_use(nxt, i)
                if hit is None or hit[1] is None:
                    continue
                hit[1](init)
                if idx + 1 < len(seq):
                    seq = seq[:idx] + [nxt] + seq[idx + 2:]
                else:
                    seq = seq[:idx]
                    tail = nxt
                changed = True
                break
        m = dict(n, stmts=seq)
        if tail is not None:
            m["expr"] = tail
        else:
            m.pop("expr", None)
        return m
    return map_tree(root, fn)


_OPASSIGN = {"Add": "AddAssign", "Sub": "SubAssign", "Mul": "MulAssign", "BitOr": "BitOrAssign", "BitAnd": "BitAndAssign", "BitXor": "BitXorAssign",
             "Shl": "ShlAssign", "Shr": "ShrAssign", "Div": "DivAssign", "Rem": "RemAssign"}


def _assign_op(n):
    """`p = p op e` on a primitive integer place -> `p op= e`."""
    if n.get("k") != "assign":
        return n
    r = hir.simp(n["r"])
    if isinstance(r, dict) and r.get("k") == "bin" and "callee" not in r and r.get("op") in _OPASSIGN and r.get("ty") in INT_TYS \
            and pure(n["l"]) and hir.place_str(n["l"]) is not None and hir.place_str(n["l"]) == hir.place_str(r["l"]) \
            and json.dumps(_strip(hir.peel(n["l"])), sort_keys=True) == json.dumps(_strip(hir.peel(r["l"])), sort_keys=True):
        return {"k": "assignop", "op": _OPASSIGN[r["op"]], "l": n["l"], "r": r["r"], "ln": n.get("ln"), "ty": "()", "norm": "assign-op"}
    return n


def _strip(n):
    if isinstance(n, dict):
        return {k: _strip(v) for k, v in n.items() if k not in ("ln", "ty", "mac", "inl", "norm", "col", "copy_of")}
    if isinstance(n, list):
        return [_strip(x) for x in n]
    return n


# ---------------------------------------------------------------------------------------------------------------------

def normalise_crate(name, crate):
    if os.environ.get("VERIF_NO_NORM"):
        return
    ref = reference().get(name)
    known = set(ref) if ref is not None else None
    bodies = [b for b in crate["bodies"] if "hir" in b]
    for b in bodies:
        b["hir_raw"] = b["hir"]
    inl = Inliner(name, bodies, known) if known is not None else None
    refc = reference_consts().get(name)
    newc = {}
    if refc is not None:
        for it in crate.get("items", []):
            if it.get("dk") in ("Const", "AssocConst") and it["path"] not in refc and isinstance(it.get("value"), (int, bool, str)):
                newc[it["path"]] = it["value"]
    if refc is not None:
        # a new constant whose initialiser is a plain literal (`const DEFAULT: &str = "default";`) is that literal too
        for b in bodies:
            if b.get("kind") in ("Const", "AssocConst") and b["path"] not in refc and b["path"] not in newc:
                lit = hir.simp(b["hir_raw"])
                while isinstance(lit, dict) and lit.get("k") == "ref":
                    lit = hir.simp(lit["e"])
                if isinstance(lit, dict) and lit.get("k") == "lit" and lit.get("t") in ("str", "int", "bool") and isinstance(lit.get("v"), (str, int, bool)):
                    newc[b["path"]] = lit["v"]
    crate["folded_consts"] = sorted(newc)
    const_bodies = {b["path"]: b["hir_raw"] for b in bodies if b.get("kind") in ("Const", "AssocConst")}
    for b in bodies:
        ids = Ids(1_000_000)
        h = copy.deepcopy(b["hir_raw"])
        if newc:
            h = fold_new_consts(h, newc)
        h = map_tree(h, _int_from)
        h = map_tree(h, _then_some)
        h = map_tree(h, _try_for_each(ids))
        h = map_tree(h, _take_while_count(ids))
        h = map_tree(h, _position_by_ref)
        h = map_tree(h, _fold_to_loop(ids))
        h = map_tree(h, _filter_fusion)
        h = map_tree(h, _explicit_try(ids))
        h = unroll_const_loops(h, const_bodies, ids)
        h = specialise_range_arms(h, ids)
        b["hir_pre"] = h
        b["hir_pre_norm"] = h
    for b in bodies:
        h = b.pop("hir_pre")
        if inl is not None:
            h2 = inl.expand(h, params=b.get("params", []))
            if any(x.get("inlined") for x in all_nodes(h2) if isinstance(x, dict)):
                h2 = hoist(h2)
                h2 = case_of_case(h2)
                h2 = map_tree(h2, _map_fusion)
                h2 = map_of_inlined(h2)
                b["inlined_from"] = sorted({x["inlined"] for x in all_nodes(h2) if x.get("inlined")} |
                                           {x["inl"] for x in all_nodes(h2) if x.get("inl")})
            h = h2
        h = map_tree(h, _matches_literals)
        h = inline_local_closures(h, ids)
        h = bool_tuple_match(h)
        h = fold_constant_ifs(h)
        h = map_tree(h, _or_split)
        h = map_tree(h, _mem_replace)
        h = split_tuple_lets(h)
        h = split_struct_lets(h)
        h = cast_to_uses(h)
        h = alias(h, b.get("params", []))
        h = mut_ref_alias(h)
        h = subst_int_lets(h)
        h = map_tree(h, _assign_op)
        h = map_tree(h, _index_through_ref)
        h = untag(h, b.get("params", []))
        b["hir"] = h
        if ref is not None and b["path"] in ref and ref[b["path"]] is not None:
            rename_params(b, ref[b["path"]])
    for b in bodies:
        b.pop("hir_pre_norm", None)
    if inl is not None:
        helpers = sorted(p for p, v in inl._cand.items() if v is not None)
        # a helper all of whose calls were inlined is accounted for in its callers: its own body leaves the list the rules scan
        # (it stays available as crate["helper_bodies"]; C04 still matches it against its MIR inventory)
        residual = set()
        for b in bodies:
            if b["path"] in helpers:
                continue
            for x in all_nodes(b["hir"]):
                if x.get("k") == "call" and not x.get("ctor"):
                    residual.add(x.get("resolved") or x.get("callee") or "")
            for x in all_nodes(b["hir"]):
                if x.get("k") == "def" and x.get("path") in helpers:
                    residual.add(x["path"])       # taken as a function value
        gone = [h for h in helpers if h not in residual]
        crate["inlined_helpers"] = gone
        keep, moved = [], []
        for b in crate["bodies"]:
            owner = b["path"] if b.get("kind") != "Closure" else (b.get("parent") or "")
            (moved if (b["path"] in gone or owner in gone) else keep).append(b)
        crate["bodies"] = keep
        crate["helper_bodies"] = moved
