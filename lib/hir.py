"""Helpers over the exported HIR trees: idiom normalisation and small structural queries.

Everything here is a read of the type-checked tree (resolved callees, resolved paths); no text matching.
"""
from core import Unrecognised

CHILD_KEYS = ("e", "l", "r", "c", "t", "f", "i", "init", "els", "scrut", "body", "expr", "base", "guard", "cond")
LIST_KEYS = ("args", "es", "stmts", "arms", "fields", "params")


ORDER = {
    "block": ("stmts", "expr"),
    "if": ("c", "t", "e"),
    "match": ("scrut", "arms"),
    "let": ("init", "els"),
    "letexpr": ("init",),
    "call": ("f", "args"),
    "bin": ("l", "r"),
    "assign": ("r", "l"),       # the right-hand side is evaluated first
    "assignop": ("r", "l"),
    "index": ("e", "i"),
    "struct": ("fields", "base"),
    "closure": ("body",),
    "loop": ("body",),
}


def children(e):
    """Child nodes in evaluation (source) order."""
    if not isinstance(e, dict):
        return
    keys = ORDER.get(e.get("k"))
    if keys is None:
        keys = CHILD_KEYS + LIST_KEYS
    for k in keys:
        v = e.get(k)
        if isinstance(v, dict):
            yield v
        elif isinstance(v, list):
            for x in v:
                if isinstance(x, dict):
                    # match arms / struct fields are wrappers without a kind: descend into their parts in order
                    if "k" not in x:
                        for kk in ("guard", "body", "e"):
                            if isinstance(x.get(kk), dict):
                                yield x[kk]
                    else:
                        yield x


def walk(e):
    """All nodes, pre-order (patterns are not descended into except guards)."""
    stack = [e]
    while stack:
        n = stack.pop()
        if not isinstance(n, dict):
            continue
        yield n
        ch = list(children(n))
        stack.extend(reversed(ch))


def callee(e):
    """Resolved callee path of a call node ('' when it is not a direct call)."""
    if e.get("k") != "call":
        return ""
    return e.get("resolved") or e.get("callee") or ""


def callee_decl(e):
    """Callee as written (trait method path before impl resolution)."""
    return e.get("callee") or ""


def is_call(e, *names):
    """Call whose resolved or declared callee ends with one of names."""
    if not isinstance(e, dict) or e.get("k") != "call":
        return False
    r, c = e.get("resolved") or "", e.get("callee") or ""
    for n in names:
        if r == n or c == n or r.endswith("::" + n) or c.endswith("::" + n):
            return True
    return False


def calls_in(e, *names):
    return [n for n in walk(e) if is_call(n, *names)]


def simp(e):
    """Strip blocks that only wrap an expression, and `{ expr }` without statements."""
    while isinstance(e, dict) and e.get("k") == "block" and not e.get("stmts") and "expr" in e and "unsafe" not in e and "label" not in e:
        e = e["expr"]
    return e


def peel(e):
    """Strip wrappers that do not change which place/value is denoted: blocks, & / &mut, *, casts."""
    while True:
        e = simp(e)
        if not isinstance(e, dict):
            return e
        k = e.get("k")
        if k == "ref":
            e = e["e"]
        elif k == "un" and e.get("op") == "Deref" and "callee" not in e:
            e = e["e"]
        elif k == "cast":
            e = e["e"]
        else:
            return e


def is_local(e, name=None):
    e = peel(e)
    return isinstance(e, dict) and e.get("k") == "local" and (name is None or e["name"] == name)


def local_name(e):
    e = peel(e)
    if isinstance(e, dict) and e.get("k") == "local":
        return e["name"]
    return None


def is_def(e, suffix=None):
    e = simp(e)
    if not (isinstance(e, dict) and e.get("k") in ("def", "ppath")):
        return False
    return suffix is None or e.get("path", "") == suffix or e.get("path", "").endswith("::" + suffix)


def def_path(e):
    e = simp(e)
    if isinstance(e, dict) and e.get("k") in ("def", "ppath"):
        return e.get("path")
    return None


def last_seg(path):
    if path is None:
        return None
    # strip generic args for robustness: `a::B::<T>::c` -> c
    return path.split("::")[-1]


def lit_val(e):
    e = simp(e)
    if isinstance(e, dict) and e.get("k") == "lit":
        v = e.get("v")
        if e.get("t") == "bytes":
            return bytes(v)
        return v
    return None


def is_lit(e):
    e = simp(e)
    return isinstance(e, dict) and e.get("k") == "lit"


def place_str(e):
    """Canonical text of a place expression built from locals, fields, derefs: `self.state`, `*state`→`state`."""
    e = peel(e)
    if not isinstance(e, dict):
        return None
    k = e.get("k")
    if k == "local":
        return e["name"]
    if k == "field":
        b = place_str(e["e"])
        return None if b is None else f"{b}.{e['name']}"
    if k == "index":
        b = place_str(e["e"])
        return None if b is None else f"{b}[]"
    if k == "def":
        return e["path"]
    return None


def try_inner(e):
    """`x?` → x ; otherwise None."""
    e = simp(e)
    if isinstance(e, dict) and e.get("k") == "match" and e.get("src") == "TryDesugar":
        s = e["scrut"]
        if is_call(s, "Try::branch") and len(s["args"]) == 1:
            return s["args"][0]
        raise Unrecognised("TryDesugar without Try::branch")
    return None


def strip_try(e):
    """x? → x (one level) else e."""
    t = try_inner(e)
    return t if t is not None else simp(e)


def for_loop(e):
    """`for pat in iter { body }` → (pat, iter_expr, body_block) ; otherwise None."""
    e = simp(e)
    if not (isinstance(e, dict) and e.get("k") == "match" and e.get("src") == "ForLoopDesugar"):
        return None
    it = e["scrut"]
    if is_call(it, "Iterator::next"):
        return None  # the inner half of the desugaring
    if not is_call(it, "IntoIterator::into_iter"):
        raise Unrecognised("for-loop desugaring without into_iter")
    iter_expr = it["args"][0]
    lp = simp(e["arms"][0]["body"])
    if lp.get("k") != "loop":
        raise Unrecognised("for-loop desugaring without loop")
    inner = lp["body"]
    m = inner.get("expr") or (inner["stmts"][0] if inner.get("stmts") else None)
    m = simp(m)
    if not (m.get("k") == "match" and len(m["arms"]) == 2):
        raise Unrecognised("for-loop desugaring: inner match")
    some = [a for a in m["arms"] if a["pat"].get("k") in ("pstruct", "pts") and last_seg(a["pat"]["path"].get("path")) == "Some"]
    if len(some) != 1:
        raise Unrecognised("for-loop desugaring: Some arm")
    sp = some[0]["pat"]
    p = sp["fields"][0]["p"] if sp["k"] == "pstruct" else sp["pats"][0]
    return p, iter_expr, some[0]["body"]


def while_loop(e):
    """`while cond { body }` → (cond, body) ; otherwise None."""
    e = simp(e)
    if not (isinstance(e, dict) and e.get("k") == "loop" and e.get("src") == "While"):
        return None
    b = e["body"]
    inner = simp(b.get("expr") or (b["stmts"][0] if b.get("stmts") else None))
    if inner.get("k") != "if":
        raise Unrecognised("while desugaring")
    return inner["c"], inner["t"]


def stmts_of(e):
    """Statement list of a block (trailing expression appended); a non-block is a 1-element list."""
    e = simp(e)
    if isinstance(e, dict) and e.get("k") == "block":
        out = list(e.get("stmts", []))
        if "expr" in e:
            out.append(e["expr"])
        return out
    return [e]


def pat_alternatives(p):
    """Flatten or-patterns."""
    if p.get("k") == "por":
        out = []
        for x in p["pats"]:
            out.extend(pat_alternatives(x))
        return out
    return [p]


def pat_ints(p):
    """Set of integers matched by an int-literal / range / or pattern; None for wildcard/binding."""
    k = p.get("k")
    if k == "lit" and p.get("t") == "int":
        return {p["v"]}
    if k == "prange":
        lo, hi = p.get("lo"), p.get("hi")
        if lo is None or hi is None or lo.get("t") != "int" or hi.get("t") != "int":
            raise Unrecognised("open or non-literal range pattern")
        return set(range(lo["v"], hi["v"] + (1 if p.get("incl") else 0)))
    if k == "por":
        s = set()
        for x in p["pats"]:
            xi = pat_ints(x)
            if xi is None:
                return None
            s |= xi
        return s
    if k in ("pwild", "pbind"):
        return None
    raise Unrecognised(f"pattern kind {k} where an integer pattern was expected")


def pat_path(p):
    """Resolved path of a unit-variant / const path pattern, or of a struct/tuple-struct pattern."""
    k = p.get("k")
    if k == "ppath":
        return p.get("path")
    if k in ("pts", "pstruct"):
        return p["path"].get("path")
    return None


def fmt_template(e):
    """Decode a lowered `format_args!` block → (pieces:list[str|('arg',idx)], args:list[expr]).

    Lowering (this nightly): `{ let args = (&a, &b); let args = [Argument::new_display(args.0), ..];
    unsafe { Arguments::new(b"<template>", &args) } }`; templates without arguments lower to
    `Arguments::from_str("..")`/`from_str_nonconst`.
    Template bytes: n (1..=0x7f) followed by n literal bytes; 0xc0 = next argument, default options; 0 = end.
    """
    e = simp(e)
    if is_call(e, "Arguments::<'a>::from_str", "Arguments::<'a>::from_str_nonconst", "from_str"):
        s = lit_val(e["args"][0])
        if isinstance(s, str):
            return [s], []
    if not (isinstance(e, dict) and e.get("k") == "block"):
        raise Unrecognised("format_args lowering: not a block")
    st = e.get("stmts", [])
    tail = e.get("expr")
    new = None
    for n in walk(tail) if tail else []:
        if is_call(n, "Arguments::<'a>::new"):
            new = n
    if new is None or len(st) != 2:
        raise Unrecognised("format_args lowering: Arguments::new not found")
    tup = simp(st[0]["init"])
    args = [peel(x) for x in tup["es"]] if tup.get("k") == "tuple" else [peel(tup)]
    kinds = []
    arr = simp(st[1]["init"])
    for a in arr["es"]:
        kinds.append(last_seg(callee(a)))
    tpl = lit_val(new["args"][0])
    if not isinstance(tpl, (bytes, bytearray)):
        raise Unrecognised("format_args lowering: template is not a byte string")
    pieces = []
    i = 0
    argi = 0
    while i < len(tpl):
        b = tpl[i]
        if b == 0:
            break
        if b < 0x80:
            pieces.append(tpl[i + 1:i + 1 + b].decode("utf-8", "replace"))
            i += 1 + b
        elif b == 0x80:
            n = tpl[i + 1] | (tpl[i + 2] << 8)
            pieces.append(tpl[i + 3:i + 3 + n].decode("utf-8", "replace"))
            i += 3 + n
        elif b & 0xc0 == 0xc0:
            i += 1
            opts = {}
            if b & 1:
                flags = int.from_bytes(tpl[i:i + 4], "little")
                i += 4
                opts["fill"] = chr(flags & 0x1fffff)
                opts["zero_pad"] = bool(flags >> 24 & 1)
                opts["alternate"] = bool(flags >> 23 & 1)
                opts["has_width"] = bool(flags >> 27 & 1)
                opts["has_precision"] = bool(flags >> 28 & 1)
            if b & 2:
                opts["width"] = tpl[i] | (tpl[i + 1] << 8)
                opts["width_indirect"] = bool(b & 0x10)
                i += 2
            if b & 4:
                opts["precision"] = tpl[i] | (tpl[i + 1] << 8)
                opts["precision_indirect"] = bool(b & 0x20)
                i += 2
            pos = argi
            if b & 8:
                pos = tpl[i] | (tpl[i + 1] << 8)
                i += 2
            kind = kinds[pos] if pos < len(kinds) else None
            if opts:
                pieces.append(("arg", pos, kind, opts))
            else:
                pieces.append(("arg", pos, kind))
            argi = pos + 1
        else:
            raise Unrecognised(f"format_args template opcode {b:#x}")
    return pieces, args


def is_fmt_block(x):
    """The lowered `format_args!` block itself (not an enclosing block)."""
    if not (isinstance(x, dict) and x.get("k") == "block" and len(x.get("stmts", [])) == 2 and "expr" in x):
        return False
    e = x["expr"]
    if not (isinstance(e, dict) and e.get("k") == "block" and "unsafe" in e):
        return False
    inner = simp(e.get("expr"))
    return is_call(inner, "Arguments::<'a>::new")


def fmt_blocks(root):
    return [x for x in walk(root) if is_fmt_block(x)]


def const_fold(e, consts=None):
    """Fold integer constant expressions (+,-,*,<<,>>,|,&) over literals and named consts."""
    e = simp(e)
    if not isinstance(e, dict):
        return None
    k = e.get("k")
    if k == "lit" and e.get("t") == "int":
        return e["v"]
    if k == "cast":
        return const_fold(e["e"], consts)
    if k == "def" and consts is not None:
        return consts.get(e["path"])
    if k == "bin" and "callee" not in e:
        a, b = const_fold(e["l"], consts), const_fold(e["r"], consts)
        if a is None or b is None:
            return None
        op = e["op"]
        return {"Add": a + b, "Sub": a - b, "Mul": a * b, "Shl": a << b, "Shr": a >> b, "BitOr": a | b,
                "BitAnd": a & b, "BitXor": a ^ b}.get(op)
    return None


# ---------------------------------------------------------------------------------------------
# structural path conditions

def diverges(e):
    e = simp(e)
    return isinstance(e, dict) and e.get("ty") == "!"


def split_and(c):
    c = simp(c)
    if isinstance(c, dict) and c.get("k") == "bin" and c.get("op") == "And":
        return split_and(c["l"]) + split_and(c["r"])
    return [c]


def split_or(c):
    c = simp(c)
    if isinstance(c, dict) and c.get("k") == "bin" and c.get("op") == "Or":
        return split_or(c["l"]) + split_or(c["r"])
    return [c]


def _cond_frames(c, val):
    """Frames implied by `c == val`."""
    c = simp(c)
    if isinstance(c, dict) and c.get("k") == "un" and c.get("op") == "Not" and "callee" not in c:
        return _cond_frames(c["e"], not val)
    if val:
        parts = split_and(c)
        if len(parts) > 1:
            out = []
            for p in parts:
                out.extend(_cond_frames(p, True))
            return out
    else:
        parts = split_or(c)
        if len(parts) > 1:
            out = []
            for p in parts:
                out.extend(_cond_frames(p, False))
            return out
    return [{"kind": "if", "expr": c, "val": val}]


def visit_with_conds(root, pred):
    """Yield (node, frames) for every node satisfying pred; frames = structural path conditions that hold
    when control reaches the node (if/else polarity, match arm with the patterns of earlier arms, early exits
    of preceding statements, enclosing loops/closures as markers)."""
    out = []

    def visit(e, frames):
        e0 = e
        if not isinstance(e, dict):
            return
        if pred(e):
            out.append((e, frames))
        k = e.get("k")
        if k == "block":
            fr = frames
            seq = list(e.get("stmts", []))
            if "expr" in e:
                seq.append(e["expr"])
            for s in seq:
                visit(s, fr)
                fr = fr + _after_stmt(s)
            return
        if k == "let":
            if "init" in e:
                visit(e["init"], frames)
            if "els" in e:
                visit(e["els"], frames)
            return
        if k == "if":
            visit(e["c"], frames)
            tf = [dict(f, node=e, branch="t") for f in _cond_frames(e["c"], True)]
            visit(e["t"], frames + tf)
            if "e" in e:
                ef = [dict(f, node=e, branch="e") for f in _cond_frames(e["c"], False)]
                visit(e["e"], frames + ef)
            return
        if k == "match":
            visit(e["scrut"], frames)
            prior = []
            for i, a in enumerate(e["arms"]):
                fr = frames + [{"kind": "arm", "scrut": e["scrut"], "pat": a["pat"], "prior": list(prior),
                                "guard": a.get("guard"), "index": i, "match": e}]
                if "guard" in a:
                    visit(a["guard"], fr)
                    fr = fr + _cond_frames(a["guard"], True)
                visit(a["body"], fr)
                if "guard" not in a:
                    prior.append(a["pat"])
            return
        if k == "loop":
            visit(e["body"], frames + [{"kind": "loop", "node": e}])
            return
        if k == "closure":
            visit(e["body"], frames + [{"kind": "closure", "node": e}])
            return
        for c in children(e0):
            visit(c, frames)

    visit(root, [])
    return out


def _after_stmt(s):
    """Conditions that hold after statement s completes normally (early-exit idioms)."""
    s = simp(s)
    if not isinstance(s, dict):
        return []
    k = s.get("k")
    if k == "if":
        t_div = diverges(s["t"])
        e_div = "e" in s and diverges(s["e"])
        if t_div and not e_div:
            return _cond_frames(s["c"], False)
        if e_div and not t_div:
            return _cond_frames(s["c"], True)
        return []
    if k == "match" and s.get("src") in ("Normal", "Postfix"):
        div = [a for a in s["arms"] if diverges(a["body"]) and "guard" not in a]
        if div and len(div) < len(s["arms"]):
            return [{"kind": "not-arms", "scrut": s["scrut"], "pats": [a["pat"] for a in div], "match": s},
                    {"kind": "in-arms", "scrut": s["scrut"], "pats": [a["pat"] for a in s["arms"] if a not in div and "guard" not in a], "match": s,
                     "all_unguarded": all("guard" not in a for a in s["arms"] if a not in div)}]
    if k == "let" and "els" in s:
        return [{"kind": "letelse", "pat": s["pat"], "init": s["init"]}]
    return []


def same_place(a, b):
    pa, pb = place_str(a), place_str(b)
    return pa is not None and pa == pb


def frames_have(frames, test):
    return any(test(f) for f in frames)


# ---------------------------------------------------------------------------------------------
# loop-free path enumeration (closures / small functions)

class Path:
    """One structural path: trace = ordered list of items
       ('cond', expr, bool) | ('arm', scrut, pat, prior_pats) | ('let', pat, init) | ('assign', node) |
       ('eval', expr)  (expression evaluated for effect);  value = result expression or None; exit = 'value'|'ret'|'break'|'continue'|'diverge'
    """

    def __init__(self, trace=None, value=None, exit="value", label=None):
        self.trace = trace or []
        self.value = value
        self.exit = exit
        self.label = label

    def conds(self):
        return [t for t in self.trace if t[0] in ("cond", "arm")]


def enumerate_paths(e, limit=4096):
    """All structural paths through a loop-free expression. Raises Unrecognised on loops."""
    res = _paths(e)
    if len(res) > limit:
        raise Unrecognised("too many paths")
    return res


def _seq(prefixes, e):
    out = []
    for p in prefixes:
        if p.exit != "value":
            out.append(p)
            continue
        for q in _paths(e):
            out.append(Path(p.trace + q.trace, q.value, q.exit, q.label))
    return out


def _paths(e):
    if isinstance(e, dict) and e.get("mac") and e.get("k") in ("block", "if") and str(e["mac"][0]).startswith("debug_assert"):
        return [Path()]        # a debug assertion has no effect on the paths that return (whether it can fire is C04's question)
    e = simp(e)
    if not isinstance(e, dict):
        return [Path()]
    k = e.get("k")
    if k == "block":
        cur = [Path()]
        for s in e.get("stmts", []):
            cur = _seq(cur, s)
            # the value of a statement is discarded
            cur = [Path(p.trace, None if p.exit == "value" else p.value, p.exit, p.label) for p in cur]
        if "expr" in e:
            cur = _seq(cur, e["expr"])
        if e.get("label"):
            # an inlined helper: its `return v` is `break 'label v` — the block's value
            cur = [Path(p.trace, p.value, "value") if (p.exit == "break" and p.label == e["label"]) else p for p in cur]
        return cur
    if k == "let":
        if "els" in e:
            raise Unrecognised("let-else in path enumeration")
        if "init" not in e:
            return [Path()]
        out = []
        for p in _paths(e["init"]):
            if p.exit != "value":
                out.append(p)
            else:
                out.append(Path(p.trace + [("let", e["pat"], p.value if p.value is not None else e["init"])], None, "value"))
        return out
    if k == "if":
        out = []
        for val, br in ((True, e["t"]), (False, e.get("e"))):
            frames = _cond_frames(e["c"], val)
            # a disjunction that is true / conjunction that is false stays one compound literal
            pre = [("cond", f["expr"], f["val"]) for f in frames]
            if br is None:
                out.append(Path(pre, None, "value"))
            else:
                for q in _paths(br):
                    out.append(Path(pre + q.trace, q.value, q.exit, q.label))
        return out
    if k == "match":
        if e.get("src") == "ForLoopDesugar":
            raise Unrecognised("loop in path enumeration")
        if e.get("src") == "TryDesugar":
            inner = try_inner(e)
            out = []
            for p in _paths(inner):
                if p.exit != "value":
                    out.append(p)
                    continue
                v = simp(p.value) if isinstance(p.value, dict) else {}
                # a value known to be the error / success case (an inlined helper's own `?` or its final Ok(..)) takes one side
                known_err = is_call(v, "FromResidual::from_residual") or (v.get("k") == "call" and str(v.get("ctor", "")).endswith("Result::Err"))
                known_ok = v.get("k") == "call" and str(v.get("ctor", "")).endswith(("Result::Ok", "Option::Some"))
                if not known_ok:
                    out.append(Path(p.trace + [("try-err", inner)], None, "ret-err"))
                if not known_err:
                    out.append(Path(p.trace + [("try-ok", inner)], v["args"][0] if known_ok else inner, "value"))
            return out
        out = []
        for sp in _paths(e["scrut"]):
            if sp.exit != "value":
                out.append(sp)
                continue
            prior = []
            for a in e["arms"]:
                pre = sp.trace + [("arm", e["scrut"], a["pat"], list(prior))]
                if "guard" in a:
                    pre += [("cond", f["expr"], f["val"]) for f in _cond_frames(a["guard"], True)]
                else:
                    prior.append(a["pat"])
                for q in _paths(a["body"]):
                    out.append(Path(pre + q.trace, q.value, q.exit, q.label))
        return out
    if k == "loop":
        raise Unrecognised("loop in path enumeration")
    if k == "ret":
        if "e" in e:
            out = []
            for p in _paths(e["e"]):
                out.append(Path(p.trace, p.value, "ret" if p.exit == "value" else p.exit))
            return out
        return [Path([], None, "ret")]
    if k == "break":
        if "e" in e and e.get("to_block"):
            return [Path(p.trace, p.value, "break" if p.exit == "value" else p.exit, e.get("label") if p.exit == "value" else p.label) for p in _paths(e["e"])]
        return [Path([], e.get("e"), "break", e.get("label"))]
    if k == "continue":
        return [Path([], None, "continue")]
    if k == "assign" or k == "assignop":
        return [Path([("assign", e)], None, "value")]
    if k == "call":
        if e.get("ty") == "!":
            return [Path([("eval", e)], None, "diverge")]
        return [Path([("eval", e)], e, "value")]
    # pure expression: value
    return [Path([], e, "value")]


# ---------------------------------------------------------------------------------------------
# boolean expressions over opaque atoms

def bool_eval(e, atom_value):
    """Evaluate a boolean expression; atom_value(node) -> bool | None for leaves (None = unknown atom → raises)."""
    e = simp(e)
    k = e.get("k")
    if k == "lit" and e.get("t") == "bool":
        return e["v"]
    if k == "un" and e.get("op") == "Not" and "callee" not in e:
        return not bool_eval(e["e"], atom_value)
    if k == "bin" and e.get("op") in ("And", "Or") and "callee" not in e:
        l = bool_eval(e["l"], atom_value)
        if e["op"] == "And":
            return l and bool_eval(e["r"], atom_value)
        return l or bool_eval(e["r"], atom_value)
    v = atom_value(e)
    if v is None:
        import hirpp
        raise Unrecognised(f"condition `{hirpp.expr(e)[:80]}` (line {e.get('ln', '?')}) is not one the rule can evaluate")
    return v


def bool_atoms(e, out=None):
    out = [] if out is None else out
    e = simp(e)
    k = e.get("k")
    if k == "lit" and e.get("t") == "bool":
        return out
    if k == "un" and e.get("op") == "Not" and "callee" not in e:
        return bool_atoms(e["e"], out)
    if k == "bin" and e.get("op") in ("And", "Or") and "callee" not in e:
        bool_atoms(e["l"], out)
        return bool_atoms(e["r"], out)
    out.append(e)
    return out


# ---------------------------------------------------------------------------------------------
# where a local's value comes from

def binding_sources(root):
    """{local id: expression the local is bound from}, following destructuring of tuples, the success projections `Ok(x)` /
    `Some(x)` of `if let` / `match` / `let`, and `?` (so `let r = f(x)?;`, `let r = f(x).map_err(..)?;` and
    `if let (Ok(r), ..) = (f(x), ..)` all give r -> f(x))."""
    out = {}

    def strip(e):
        e = simp(e)
        while isinstance(e, dict):
            t = try_inner(e) if e.get("k") == "match" else None
            if t is not None:
                e = simp(t)
                continue
            if e.get("k") == "call" and callee(e).split("::")[-1] in ("map_err", "ok", "ok_or", "ok_or_else") and e.get("args"):
                e = simp(e["args"][0])
                continue
            break
        return e

    def bind(p, src):
        k = p.get("k")
        if k == "pbind":
            if src is not None and "id" in p:
                out[p["id"]] = strip(src)
            return
        if k == "ptuple":
            s = strip(src) if src is not None else None
            es = s.get("es") if isinstance(s, dict) and s.get("k") == "tuple" else None
            for i, q in enumerate(p.get("pats", [])):
                bind(q, es[i] if es is not None and i < len(es) else None)
            return
        if k in ("pts", "pstruct"):
            seg = last_seg(pat_path(p))
            subs = p.get("pats") if k == "pts" else [f["p"] for f in p.get("fields", [])]
            if seg in ("Ok", "Some") and len(subs or []) == 1:
                bind(subs[0], src)
            else:
                for q in subs or []:
                    bind(q, None)
            return
        if k in ("pref", "pderef") and "p" in p:
            bind(p["p"], src)

    for n in walk(root):
        k = n.get("k")
        if k in ("let", "letexpr") and "init" in n:
            bind(n["pat"], n["init"])
        elif k == "match" and n.get("src") not in ("TryDesugar", "ForLoopDesugar"):
            for a in n["arms"]:
                bind(a["pat"], n["scrut"])
    return out


# ---------------------------------------------------------------------------------------------
# deciding a structural path under a valuation of its scrutinees

def pat_matches(p, v):
    """Does pattern `p` match value v = ('enum', path) | ('int', n) | ('bool', b) | ('other',) ?  None = cannot tell."""
    k = p.get("k")
    if k in ("pwild", "pbind"):
        return True
    if k == "por":
        rs = [pat_matches(q, v) for q in p["pats"]]
        if any(r is True for r in rs):
            return True
        return None if any(r is None for r in rs) else False
    if k == "ppath":
        if v[0] == "enum":
            return p.get("path") == v[1]
        return False if v[0] == "other" else None
    if k in ("pts", "pstruct"):
        # a variant pattern whose sub-patterns bind or ignore: decided by the variant alone
        subs = p.get("pats") if k == "pts" else [f["p"] for f in p.get("fields", [])]
        if v[0] == "enum" and all(q.get("k") in ("pbind", "pwild") or (q.get("k") == "ptuple" and not q.get("pats")) for q in (subs or [])):
            return pat_path(p) == v[1]
        return False if v[0] == "other" else None
    if k == "ptuple":
        if v[0] == "tuple" and len(v) - 1 == len(p.get("pats", [])):
            rs = [pat_matches(q, x) for q, x in zip(p["pats"], v[1:])]
            if any(r is False for r in rs):
                return False
            return None if any(r is None for r in rs) else True
        return None
    if k == "lit":
        if v[0] in ("int", "bool", "str"):
            return p.get("v") == v[1]
        return False if v[0] == "other" else None
    if k == "prange":
        if v[0] == "int":
            s = pat_ints(p)
            return v[1] in s
        return False if v[0] == "other" else None
    return None


def path_feasible(path, val, observe=None):
    """Is the structural path taken when every tracked scrutinee has the value given by val(expr) (-> value or None for an
    untracked expression)?  Raises Unrecognised when a branch on an untracked expression is met.  `observe(item)` is called
    for the non-branch items (assignments, evaluated calls, lets) in path order, so that val can follow stores."""
    import hirpp

    def atom(e):
        e = simp(e)
        if e.get("k") == "bin" and e.get("op") in ("Eq", "Ne") and "callee" not in e or (e.get("k") == "bin" and e.get("op") in ("Eq", "Ne")):
            l, r = val(e["l"]), val(e["r"])
            if l is not None and r is not None and l[0] != "other" and r[0] != "other":
                return (l == r) if e["op"] == "Eq" else (l != r)
            if l is not None and r is not None and (l[0] == "other") != (r[0] == "other"):
                return e["op"] == "Ne"
        if e.get("k") == "bin" and e.get("op") in ("Lt", "Le", "Gt", "Ge"):
            l, r = val(e["l"]), val(e["r"])
            if l is not None and r is not None and l[0] == "int" and r[0] == "int":
                return {"Lt": l[1] < r[1], "Le": l[1] <= r[1], "Gt": l[1] > r[1], "Ge": l[1] >= r[1]}[e["op"]]
        v = val(e)
        if v is not None and v[0] == "bool":
            return v[1]
        return None

    for t in path.trace:
        if t[0] not in ("cond", "arm"):
            if observe is not None:
                observe(t)
            continue
        if t[0] == "cond":
            c = simp(t[1])
            if c.get("k") == "letexpr":
                v = val(c["init"])
                m = pat_matches(c["pat"], v) if v is not None else None
                if m is None:
                    raise Unrecognised(f"`if let` on `{hirpp.expr(c['init'])[:50]}` (line {c.get('ln', '?')}) cannot be decided")
                if m != t[2]:
                    return False
                continue
            if bool_eval(c, atom) != t[2]:
                return False
        elif t[0] == "arm":
            v = val(t[1])
            if v is None:
                raise Unrecognised(f"match on `{hirpp.expr(t[1])[:50]}` (line {simp(t[1]).get('ln', '?')}) cannot be decided")
            m = pat_matches(t[2], v)
            if m is None:
                raise Unrecognised("pattern cannot be decided")
            if not m:
                return False
            for q in t[3]:
                mq = pat_matches(q, v)
                if mq is None:
                    raise Unrecognised("pattern cannot be decided")
                if mq:
                    return False
    return True


class Resolver:
    """Follow immutable single-assignment locals to the expression they were bound to (`let x = e;` with x never reassigned),
    so that a rule reads `f(g(y))` and `let t = g(y); f(t)` alike."""

    def __init__(self, root, params=()):
        self.lets = {}
        self.assigned = set()
        for n in walk(root):
            if n.get("k") == "let" and n.get("pat", {}).get("k") == "pbind" and "init" in n and "els" not in n:
                self.lets.setdefault(n["pat"].get("id"), []).append(n)
            elif n.get("k") in ("assign", "assignop"):
                l = simp(n["l"])
                if isinstance(l, dict) and l.get("k") == "local":
                    self.assigned.add(l.get("id"))

    def let_of(self, e):
        e = simp(e)
        if isinstance(e, dict) and e.get("k") == "local":
            ls = self.lets.get(e.get("id"), [])
            if len(ls) == 1 and e.get("id") not in self.assigned:
                return ls[0]
        return None

    def res(self, e, depth=6):
        """The expression behind `e` (refs and no-op blocks kept transparent)."""
        e = simp(e)
        while depth > 0:
            l = self.let_of(e)
            if l is None:
                break
            e = simp(l["init"])
            depth -= 1
        return e

    def same(self, a, b):
        """Do a and b denote the same value by construction (same local, or structurally equal after resolution)?"""
        import json
        a0, b0 = simp(a), simp(b)
        if isinstance(a0, dict) and isinstance(b0, dict) and a0.get("k") == "local" and b0.get("k") == "local" and a0.get("id") == b0.get("id"):
            return True

        def strip(n):
            if isinstance(n, dict):
                return {k: strip(v) for k, v in n.items() if k not in ("ln", "ty", "mac", "inl", "norm", "col", "recv_ty", "recv_adj_ty", "method")}
            if isinstance(n, list):
                return [strip(x) for x in n]
            return n

        def full(n, d=4):
            n = self.res(n)
            if isinstance(n, dict):
                return {k: (full(v, d - 1) if isinstance(v, dict) and d > 0 else [full(x, d - 1) if isinstance(x, dict) and d > 0 else x for x in v] if isinstance(v, list) else v)
                        for k, v in n.items()}
            return n
        return json.dumps(strip(full(a)), sort_keys=True) == json.dumps(strip(full(b)), sort_keys=True)


class Origins:
    """Where a value comes from, through bindings and projections.

    of(e) -> (root expression, projection) with projection a tuple of steps 'Some' | 'Ok' | ('tup', i) | ('fld', name):
    `let Some((&b, rest)) = xs.split_first() else { .. }`, `if let Some((b, rest)) = xs.split_first()`, and
    `match xs.split_first() { Some((&b, rest)) => .. }` all give  b -> (xs.split_first(), ('Some', ('tup', 0))).
    References, dereferences, casts and no-op blocks are transparent; an `if`/`match` whose non-diverging branches agree has
    the origin of those branches; `o.unwrap_or(d)` is kept as a call (callers interpret it)."""

    def __init__(self, root):
        self.src = {}
        self.assigned = set()
        for n in walk(root):
            k = n.get("k")
            if k in ("let", "letexpr") and "init" in n:
                self._bind(n["pat"], n["init"], ())
            elif k == "match" and n.get("src") not in ("TryDesugar", "ForLoopDesugar"):
                for a in n["arms"]:
                    self._bind(a["pat"], n["scrut"], ())
            elif k in ("assign", "assignop"):
                l = simp(n["l"])
                if isinstance(l, dict) and l.get("k") == "local":
                    self.assigned.add(l.get("id"))

    def _bind(self, p, src, proj):
        k = p.get("k")
        if k == "pbind":
            if "id" in p:
                self.src[p["id"]] = (src, proj)
            if "sub" in p and isinstance(p["sub"], dict):
                self._bind(p["sub"], src, proj)
            return
        if k == "ptuple":
            s = simp(src)
            if not proj and isinstance(s, dict) and s.get("k") == "tuple" and len(s["es"]) == len(p.get("pats", [])):
                for q, x in zip(p["pats"], s["es"]):
                    self._bind(q, x, ())
            else:
                for i, q in enumerate(p.get("pats", [])):
                    self._bind(q, src, proj + (("tup", i),))
            return
        if k in ("pts", "pstruct"):
            seg = last_seg(pat_path(p))
            if k == "pts":
                subs = list(enumerate(p.get("pats", [])))
                for i, q in subs:
                    step = seg if (seg in ("Some", "Ok", "Err") and len(subs) == 1) else ("fld", f"{seg}.{i}")
                    self._bind(q, src, proj + (step,))
            else:
                for f in p.get("fields", []):
                    step = seg if (seg in ("Some", "Ok", "Err") and f.get("name") == "0" and len(p["fields"]) == 1) else ("fld", f"{seg}.{f.get('name')}")
                    self._bind(f["p"], src, proj + (step,))
            return
        if k in ("pref", "pderef") and isinstance(p.get("p"), dict):
            self._bind(p["p"], src, proj)

    def of(self, e, depth=8):
        e = peel(e)
        proj = ()
        while depth > 0 and isinstance(e, dict):
            depth -= 1
            k = e.get("k")
            if k == "local" and e.get("id") in self.src and e.get("id") not in self.assigned:
                s, p = self.src[e["id"]]
                e, proj = peel(s), p + proj
                continue
            if k == "match" and e.get("src") == "TryDesugar":
                e, proj = peel(try_inner(e)), ("Ok",) + proj
                continue
            if k in ("if", "match", "block"):
                vals = self._branch_values(e)
                if vals is not None and len(vals) >= 1:
                    os_ = [self.of(v, depth) for v in vals]
                    if all(o[0] is os_[0][0] and o[1] == os_[0][1] for o in os_):
                        e, proj = os_[0][0], os_[0][1] + proj
                        continue
            break
        return e, proj

    def _branch_values(self, e):
        """Tail values of the non-diverging branches of an if / match / block expression."""
        k = e.get("k")
        if k == "block":
            if "expr" not in e:
                return None
            return self._branch_values(simp(e["expr"])) if simp(e["expr"]).get("k") in ("if", "match", "block") else [e["expr"]]
        out = []
        brs = [e["t"]] + ([e["e"]] if "e" in e else []) if k == "if" else [a["body"] for a in e["arms"]]
        if k == "if" and "e" not in e:
            return None
        for b in brs:
            if diverges(b) or (simp(b).get("k") == "block" and any(simp(s).get("ty") == "!" for s in simp(b).get("stmts", [])) and "expr" not in simp(b)):
                continue
            bs = simp(b)
            if bs.get("k") in ("if", "match") or (bs.get("k") == "block" and bs.get("stmts")):
                sub = self._branch_values(bs)
                if sub is None:
                    return None
                out.extend(sub)
            else:
                out.append(bs)
        return out
