"""Abstract evaluation of small loop-free functions over finite value classes.

Used for decision chains whose inputs are opaque atoms (calls whose result is supplied by the caller of the evaluator) and
for environment probes whose only input is one variable compared against literals: the variable's value ranges over a
finite set of class representatives (unset, "", each literal mentioned by the code, one other value).  Every construct
that is not understood raises Unrecognised (fail closed).

Values: ('none',) | ('some', v) | ('str', s) | ('bool', b) | ('unit',) | ('enum', path) | ('int', n)
"""
import hir
from core import Unrecognised


INT_TYS = {"u8", "u16", "u32", "u64", "u128", "usize", "i8", "i16", "i32", "i64", "i128", "isize"}


UNSIGNED_BITS = {"u8": 8, "u16": 16, "u32": 32, "u64": 64, "u128": 128, "usize": 64}


class Return(Exception):
    def __init__(self, v):
        self.v = v


LOOP_BOUND = 80


class Break(Exception):
    def __init__(self, label, v):
        self.label = label
        self.v = v


class Continue(Exception):
    def __init__(self, label):
        self.label = label


class NeedChoice(Exception):
    """An undetermined comparison of a symbolic value: the driver (`explore`) forks on it."""
    def __init__(self, key):
        self.key = key


def explore(run):
    """run(choices: dict) -> result, raising NeedChoice for every comparison the choices do not decide yet.
    Returns [(choices, result)] for every complete assignment reached."""
    out, stack = [], [{}]
    while stack:
        a = stack.pop()
        try:
            out.append((a, run(a)))
        except NeedChoice as n:
            if len(a) > 12:
                raise Unrecognised("too many undetermined comparisons")
            stack.append({**a, n.key: True})
            stack.append({**a, n.key: False})
    return out


class Env(dict):
    """Lexical scope chain: lookups and assignments go to the scope that defines the name."""
    def __init__(self, parent=None):
        super().__init__()
        self.parent = parent

    def find(self, k):
        e = self
        while e is not None:
            if dict.__contains__(e, k):
                return e
            e = e.parent
        return None

    def __contains__(self, k):
        return self.find(k) is not None

    def __getitem__(self, k):
        e = self.find(k)
        if e is None:
            raise KeyError(k)
        return dict.__getitem__(e, k)

    def assign(self, k, v):
        e = self.find(k)
        if e is None:
            raise Unrecognised(f"assignment to unbound local {k}")
        dict.__setitem__(e, k, v)


class Evaluator:
    def __init__(self, facts, crate, atoms, env_vars=None, inline_crates=()):
        self.facts = facts
        self.crate = crate
        self.atoms = atoms          # callee path -> value
        self.env_vars = env_vars    # name -> None | str   (None = evaluator must not see var_os)
        self.inline_crates = set(inline_crates) | {crate}
        self.read_vars = []
        self.choices = {}
        self.stores = []
        self.consts = {}
        self._const_cache = {}

    def _const_value(self, path):
        """Value of a const / static item of an inlinable crate, by evaluating its initialiser (arrays and tuples of constants)."""
        if path in self._const_cache:
            return self._const_cache[path]
        self._const_cache[path] = None
        crate = path.lstrip("<&").split("::")[0]
        if crate in self.inline_crates:
            try:
                bs = self.facts.crate(crate)["_bodies"].get(path, [])
                if len(bs) == 1 and "hir" in bs[0]:
                    self._const_cache[path] = self.ev(bs[0]["hir"], Env())
            except Unrecognised:
                self._const_cache[path] = None
        return self._const_cache[path]

    concrete_strings = False      # set by a rule that evaluates a string function over a finite vocabulary

    def _parse_int(self, text, radix, ty):
        """`uN::from_str_radix(text, radix)` / `text.parse::<uN>()` (ty names the Result type)."""
        import re as _re
        m = _re.search(r"Result<(u8|u16|u32|u64|usize)\b", ty)
        if not m:
            raise Unrecognised(f"integer parse into {ty}")
        bits = {"u8": 8, "u16": 16, "u32": 32, "u64": 64, "usize": 64}[m.group(1)]
        digits = text[1:] if text.startswith("+") else text
        ok = digits != "" and all(c in "0123456789abcdefghijklmnopqrstuvwxyz"[:radix] for c in digits.lower()) and all(ord(c) < 128 for c in digits)
        if ok and int(digits, radix) < (1 << bits):
            return ("ok", ("int", int(digits, radix)))
        return ("err", ("sym", "parse-int-error"))

    def _str_method(self, short, cal, args, e):
        """Concrete semantics of the `str` / `String` methods the parsers use (ASCII-only where byte offsets matter)."""
        s0 = args[0][1]

        def pat_text(p):
            if p[0] == "str":
                return p[1]
            if p[0] == "char":
                return chr(p[1])
            raise Unrecognised(f"string pattern {p}")
        if short == "to_lowercase" and len(args) == 1:
            return ("str", s0.lower())
        if short == "to_uppercase" and len(args) == 1:
            return ("str", s0.upper())
        if short in ("to_ascii_lowercase", "to_ascii_uppercase") and len(args) == 1:        # ASCII letters only
            f_ = str.lower if short == "to_ascii_lowercase" else str.upper
            return ("str", "".join(f_(c) if ord(c) < 128 else c for c in s0))
        if short == "is_ascii" and len(args) == 1:
            return ("bool", s0.isascii())
        if short in ("to_owned", "to_string", "as_ref", "as_str", "deref", "borrow", "clone", "trim") and len(args) == 1:
            return ("str", s0.strip()) if short == "trim" else args[0]
        if short == "len" and len(args) == 1:
            return ("int", len(s0.encode()))
        if short == "strip_prefix" and len(args) == 2:
            t = pat_text(args[1])
            return ("some", ("str", s0[len(t):])) if s0.startswith(t) else ("none",)
        if short == "strip_suffix" and len(args) == 2:
            t = pat_text(args[1])
            return ("some", ("str", s0[:len(s0) - len(t)])) if t and s0.endswith(t) else (("some", ("str", s0)) if not t else ("none",))
        if short == "starts_with" and len(args) == 2:
            return ("bool", s0.startswith(pat_text(args[1])))
        if short == "ends_with" and len(args) == 2:
            return ("bool", s0.endswith(pat_text(args[1])))
        if short in ("trim_start", "trim_end") and len(args) == 1:
            return ("str", s0.lstrip() if short == "trim_start" else s0.rstrip())
        if short in ("trim_start_matches", "trim_end_matches", "trim_matches") and len(args) == 2:
            t = pat_text(args[1])
            r_ = s0
            if t:
                while short != "trim_end_matches" and r_.startswith(t):
                    r_ = r_[len(t):]
                while short != "trim_start_matches" and r_.endswith(t):
                    r_ = r_[:len(r_) - len(t)]
            return ("str", r_)
        if short == "is_empty" and len(args) == 1:
            return ("bool", s0 == "")
        if short == "contains" and len(args) == 2:
            return ("bool", pat_text(args[1]) in s0)
        if short in ("find", "rfind") and len(args) == 2 and s0.isascii():
            i_ = s0.find(pat_text(args[1])) if short == "find" else s0.rfind(pat_text(args[1]))
            return ("some", ("int", i_)) if i_ >= 0 else ("none",)
        if short == "rsplit_once" and len(args) == 2:
            t = pat_text(args[1])
            if t in s0:
                a_, b_ = s0.rsplit(t, 1)
                return ("some", ("tuple", ("str", a_), ("str", b_)))
            return ("none",)
        if short == "split_whitespace" and len(args) == 1:
            return ("array",) + tuple(("str", w) for w in s0.split())
        if short == "split" and len(args) == 2:
            return ("array",) + tuple(("str", w) for w in s0.split(pat_text(args[1])))
        if short == "split_once" and len(args) == 2:
            t = pat_text(args[1])
            if t in s0:
                a_, b_ = s0.split(t, 1)
                return ("some", ("tuple", ("str", a_), ("str", b_)))
            return ("none",)
        if short in ("bytes", "as_bytes") and len(args) == 1:
            return ("array",) + tuple(("int", x) for x in s0.encode())
        if short == "chars" and len(args) == 1:
            return ("array",) + tuple(("char", ord(x)) for x in s0)
        if short == "parse" and len(args) == 1:
            return self._parse_int(s0, 10, str(e.get("ty", "")))
        if short == "eq" and len(args) == 2 and args[1][0] == "str":
            return ("bool", s0 == args[1][1])
        if short == "eq_ignore_ascii_case" and len(args) == 2 and args[1][0] == "str":
            return ("bool", s0.lower() == args[1][1].lower())
        return None

    def _is_tuple_ctor(self, path, arity):
        crate = path.split("::")[0]
        try:
            items = self.facts.items(crate)
        except Exception:
            return False
        parent, _, name = path.rpartition("::")
        for it in items:
            if it.get("dk") == "Enum" and it.get("path") == parent:
                return any(v.get("name") == name and len(v.get("fields", [])) == arity and arity > 0 for v in it.get("variants", []))
            if it.get("dk") == "Struct" and it.get("path") == path:
                vs = it.get("variants", [])
                return bool(vs) and len(vs[0].get("fields", [])) == arity and arity > 0 and all(str(f.get("name", "")).isdigit() for f in vs[0]["fields"])
        return False

    def _discr(self, variant):
        """Discriminant of a fieldless enum variant (from the item facts)."""
        if not hasattr(self, "_discrs"):
            self._discrs = {}
        if variant not in self._discrs:
            self._discrs[variant] = None
            enum, _, name = variant.rpartition("::")
            crate = enum.split("::")[0]
            try:
                for it in self.facts.items(crate):
                    if it.get("dk") == "Enum" and it.get("path") == enum:
                        for v in it.get("variants", []):
                            if v.get("name") == name and not v.get("fields") and isinstance(v.get("discr"), int):
                                self._discrs[variant] = v["discr"]
            except Exception:
                pass
        return self._discrs[variant]

    def oracle(self, key):
        if key not in self.choices:
            raise NeedChoice(key)
        return self.choices[key]

    def call_fn(self, crate, path, args, final=None):
        """Evaluate a function of an inlinable crate on argument values; `final`, when a list, receives the values its parameters
        hold at the end (what a `&mut` parameter leaves in the caller's place)."""
        b = self.facts.body(crate, path)
        env = Env()
        for p, a in zip(b["params"], args):
            if p.get("k") == "pbind":
                env[p["name"]] = a
            elif not self.bind(p, a, env):          # a pattern in parameter position (`fn from((r, g, b): (u8, u8, u8))`)
                raise Unrecognised(f"argument does not match the parameter pattern of {path}")
        try:
            r = self.ev(b["hir"], env)
        except Return as rt:
            r = rt.v
        if final is not None:
            final.extend(env.get(p["name"]) if p.get("k") == "pbind" else None for p in b["params"])
        return r

    def truth(self, v):
        if v[0] != "bool":
            raise Unrecognised(f"boolean expected, got {v}")
        return v[1]

    def ev(self, e, env):
        if isinstance(e, dict) and e.get("mac") and e.get("k") in ("block", "if") and str(e["mac"][0]).startswith("debug_assert"):
            # a debug assertion yields no value and changes nothing unless it panics — and whether anything can panic is C04's
            # question, not the evaluated function's result
            return ("unit",)
        e = hir.simp(e)
        k = e.get("k")
        if k == "lit":
            t = e.get("t")
            if t == "bool":
                return ("bool", e["v"])
            if t == "str":
                return ("str", e["v"])
            if t == "int":
                return ("int", e["v"])
            if t == "char":
                return ("char", e["v"])
            if t == "bytes" and isinstance(e.get("v"), list):
                return ("bytes", tuple(e["v"]))
            raise Unrecognised("literal")
        if k == "local":
            if e["name"] not in env:
                raise Unrecognised(f"unbound local {e['name']}")
            return env[e["name"]]
        if k == "def":
            p = e["path"]
            if p.endswith("Option::None"):
                return ("none",)
            if p in self.consts and isinstance(self.consts[p], tuple):
                return self.consts[p]
            if p in self.consts and isinstance(self.consts[p], str):
                return ("str", self.consts[p])
            if p in self.consts and isinstance(self.consts[p], bool):
                return ("bool", self.consts[p])
            if p in self.consts and isinstance(self.consts[p], int):
                return ("int", self.consts[p])
            if e.get("dk") in ("Const", "AssocConst", "Static") or p in self._const_cache:
                v = self._const_value(p)
                if v is not None:
                    return v
            if e.get("dk") in ("Fn", "AssocFn") and e.get("ty"):
                if not hasattr(self, "_fn_ty"):
                    self._fn_ty = {}
                self._fn_ty[p] = str(e["ty"])      # `str::parse::<u8>` passed as a value: the instance's signature
            return ("enum", p)
        if k == "__val":
            return e["v"]
        if k == "block":
            env = Env(env) if isinstance(env, Env) else Env(_as_env(env))
            v = ("unit",)
            try:
                for s in e.get("stmts", []):
                    self.stmt(s, env)
                if "expr" in e:
                    return self.ev(e["expr"], env)
            except Break as br:
                if e.get("label") and br.label == e["label"]:
                    return br.v            # `break 'label v` out of a labelled block (an inlined helper's `return v`)
                raise
            return v
        if k == "loop":
            # a loop whose exit conditions are decided by the (concrete or oracle-chosen) values: iterated, with a bound
            for _ in range(getattr(self, "loop_bound", LOOP_BOUND)):
                try:
                    self.ev(e["body"], env)
                except Break as br:
                    if br.label is None or br.label == e.get("label"):
                        return br.v
                    raise
                except Continue as ct:
                    if ct.label is not None and ct.label != e.get("label"):
                        raise
            raise Unrecognised(f"loop at line {e.get('ln', '?')} not finished after {getattr(self, 'loop_bound', LOOP_BOUND)} iterations")
        if k == "break":
            raise Break(e.get("label"), self.ev(e["e"], env) if isinstance(e.get("e"), dict) else ("unit",))
        if k == "continue":
            raise Continue(e.get("label"))
        if k in ("ref",):
            return self.ev(e["e"], env)
        if k == "un":
            if e["op"] == "Not" and "callee" not in e:
                v = self.ev(e["e"], env)
                if v[0] == "int" and str(e.get("ty", "")) in UNSIGNED_BITS:
                    return ("int", ~v[1] & ((1 << UNSIGNED_BITS[str(e["ty"])]) - 1))
                if v[0] in ("sym", "bin", "not") and str(e.get("ty", "")) in UNSIGNED_BITS:
                    return ("not", v)          # bitwise complement of a symbolic integer
                return ("bool", not self.truth(v))
            if e["op"] == "Deref":
                return self.ev(e["e"], env)
            raise Unrecognised("unary op")
        if k == "bin" and (e.get("resolved") or e.get("callee")) and _PRIM_REF_OP.match(str(e.get("resolved") or e.get("callee"))):
            # std's forwarding impls of the arithmetic operators for references to primitive integers (`&u16 - u16`): the primitive operator
            e = {k_: v for k_, v in e.items() if k_ not in ("resolved", "callee")}
        if k == "bin" and (e.get("resolved") or e.get("callee")) and e.get("op") not in ("Eq", "Ne", "Lt", "Le", "Gt", "Ge", "And", "Or"):
            # an overloaded operator is a call of its impl
            cal = e.get("resolved") or e.get("callee")
            args = [self.ev(e["l"], env), self.ev(e["r"], env)]
            for name in (cal, e.get("op")):
                if name in self.atoms:
                    a_ = self.atoms[name]
                    return a_(args) if callable(a_) else a_
            crate = cal.lstrip("<&").split("::")[0]
            if crate in self.inline_crates and cal in self.facts.crate(crate)["_bodies"]:
                return self.call_fn(crate, cal, args)
            if "*" in self.atoms:
                v = self.atoms["*"](cal, args, e)
                if v is not None:
                    return v
            raise Unrecognised(f"overloaded operator {cal}")
        if k == "bin":
            op = e["op"]
            if op == "And":
                return ("bool", self.truth(self.ev(e["l"], env)) and self.truth(self.ev(e["r"], env)))
            if op == "Or":
                return ("bool", self.truth(self.ev(e["l"], env)) or self.truth(self.ev(e["r"], env)))
            if op in ("Eq", "Ne"):
                l, r = self.ev(e["l"], env), self.ev(e["r"], env)
                if l[0] == "rec" and r[0] == "rec" and set(l[1]) == set(r[1]):
                    eq = True
                    for f in sorted(l[1]):
                        eq = eq and self._values_equal(l[1][f], r[1][f])
                        if not eq:
                            break
                    return ("bool", eq if op == "Eq" else not eq)
                if (l[0] in ("bin", "not", "sym") or r[0] in ("bin", "not", "sym")) and "cmp" in self.atoms:
                    got = self.atoms["cmp"]([op, l, r])
                    if got is not None:
                        return got
                if l[0] == "sym" or r[0] == "sym":
                    return ("bool", self._values_equal(l, r) if op == "Eq" else not self._values_equal(l, r))
                if l[0] in ("str", "int", "enum", "bool") and l[0] == r[0]:
                    eq = l[1] == r[1]
                    return ("bool", eq if op == "Eq" else not eq)
                if l[0] in ("some", "none") and r[0] in ("some", "none"):
                    eq = l == r
                    return ("bool", eq if op == "Eq" else not eq)
                if "cmp" in self.atoms:
                    got = self.atoms["cmp"]([op, l, r])
                    if got is not None:
                        return got
                raise Unrecognised(f"comparison of {l} and {r}")
            if op in ("Lt", "Le", "Gt", "Ge"):
                l, r = self.ev(e["l"], env), self.ev(e["r"], env)
                if l[0] == "int" and r[0] == "int":
                    return ("bool", {"Lt": l[1] < r[1], "Le": l[1] <= r[1], "Gt": l[1] > r[1], "Ge": l[1] >= r[1]}[op])
                if "ord" in self.atoms:
                    return self.atoms["ord"]([op, l, r])
                raise Unrecognised(f"ordering of {l} and {r}")
            if op in ("Div", "Rem") and "callee" not in e:
                l, r = self.ev(e["l"], env), self.ev(e["r"], env)
                if l[0] == "int" and r[0] == "int" and l[1] >= 0 and r[1] > 0:
                    return ("int", l[1] // r[1] if op == "Div" else l[1] % r[1])
                raise Unrecognised(f"{op} of {l} and {r}")
            if op in ("BitAnd", "BitOr", "BitXor", "Add", "Sub", "Mul", "Shl", "Shr") and "callee" not in e:
                l, r = self.ev(e["l"], env), self.ev(e["r"], env)
                if l[0] == "int" and r[0] == "int":
                    f = {"BitAnd": lambda a, b: a & b, "BitOr": lambda a, b: a | b, "BitXor": lambda a, b: a ^ b, "Add": lambda a, b: a + b, "Mul": lambda a, b: a * b,
                         "Sub": lambda a, b: a - b, "Shl": lambda a, b: a << b, "Shr": lambda a, b: a >> b}[op]
                    return ("int", f(l[1], r[1]))
                if l[0] == "bool" and r[0] == "bool" and op in ("BitAnd", "BitOr", "BitXor"):
                    return ("bool", {"BitAnd": l[1] and r[1], "BitOr": l[1] or r[1], "BitXor": l[1] != r[1]}[op])
                if l[0] in ("sym", "bin", "int", "not") and r[0] in ("sym", "bin", "int", "not"):
                    return ("bin", op, l, r)        # a symbolic term
                raise Unrecognised(f"arithmetic on {l} and {r}")
            raise Unrecognised(f"operator {op}")
        if k == "if":
            c = hir.simp(e["c"])
            if c.get("k") == "letexpr":
                v = self.ev(c["init"], env)
                env2 = Env(env) if isinstance(env, Env) else Env(_as_env(env))
                if self.bind(c["pat"], v, env2):
                    return self.ev(e["t"], env2)
                return self.ev(e["e"], env) if "e" in e else ("unit",)
            if self.truth(self.ev(c, env)):
                return self.ev(e["t"], env)
            return self.ev(e["e"], env) if "e" in e else ("unit",)
        if k == "match" and e.get("src") == "ForLoopDesugar":
            fl = hir.for_loop(e)
            if fl:
                pat, it, body = fl
                seq = self.ev(it, env)
                if seq[0] == "rec" and set(seq[1]) == {"start", "end"} and all(v[0] == "int" for v in seq[1].values()) \
                        and seq[1]["end"][1] - seq[1]["start"][1] <= 4096:
                    seq = ("array",) + tuple(("int", i_) for i_ in range(seq[1]["start"][1], seq[1]["end"][1]))
                if seq[0] != "array":
                    seq = self._drain(e, seq)
                own = hir.simp(e["arms"][0]["body"]).get("label")      # `'outer: for ..` — the label sits on the desugared loop
                for el in seq[1:]:
                    env2 = Env(env) if isinstance(env, Env) else Env(_as_env(env))
                    if not self.bind(pat, el, env2):
                        raise Unrecognised("refutable for-loop pattern")
                    try:
                        self.ev(body, env2)
                    except Break as br:
                        if br.label is None or (own is not None and br.label == own):
                            break
                        raise
                    except Continue as ct:
                        if ct.label is not None and not (own is not None and ct.label == own):
                            raise
                return ("unit",)
        if k == "match":
            if e.get("src") == "TryDesugar":
                inner = hir.try_inner(e)
                v = self.ev(inner, env)
                if v[0] == "none":
                    raise Return(("none",))
                if v[0] == "some":
                    return v[1]
                if v[0] == "err":
                    raise Return(v)
                if v[0] == "ok":
                    return v[1]
                raise Unrecognised("? on a value that is neither Option nor Result")
            v = self.ev(e["scrut"], env)
            for a in e["arms"]:
                env2 = Env(env) if isinstance(env, Env) else Env(_as_env(env))
                if self.bind(a["pat"], v, env2):
                    if "guard" in a and not self.truth(self.ev(a["guard"], env2)):
                        continue
                    return self.ev(a["body"], env2)
            raise Unrecognised("no arm matched")
        if k == "ret":
            raise Return(self.ev(e["e"], env) if "e" in e else ("unit",))
        if k == "field":
            ps = hir.place_str(e)
            if ps is not None and ps in env:
                return env[ps]
            base = None
            try:
                base = self.ev(e["e"], env)
            except Unrecognised:
                pass
            if base is not None and base[0] == "rec" and e["name"] in base[1]:
                return base[1][e["name"]]
            if base is not None and base[0] == "ctor" and e["name"].isdigit() and int(e["name"]) + 2 < len(base):
                return base[2 + int(e["name"])]
            if base is not None and base[0] == "tuple" and e["name"].isdigit() and int(e["name"]) + 1 < len(base):
                return base[1 + int(e["name"])]
            raise Unrecognised(f"read of untracked place {ps}")
        if k == "index":
            b_ = hir.simp(e["e"])
            i_ = self.ev(e["i"], env)
            if b_.get("k") == "def" and ("index:" + b_["path"]) in self.atoms:
                return self.atoms["index:" + b_["path"]]([i_])
            if b_.get("k") == "index" and hir.simp(b_["e"]).get("k") == "def" and ("index:" + hir.simp(b_["e"])["path"]) in self.atoms:
                return self.atoms["index:" + hir.simp(b_["e"])["path"]]([self.ev(b_["i"], env), i_])
            ps_ = hir.place_str(b_)
            if ps_ is not None and ("load:" + ps_) in self.atoms:
                return self.atoms["load:" + ps_]([i_])
            if self.concrete_strings and i_[0] == "rec" and set(i_[1]) <= {"start", "end"}:
                sv = self.ev(b_, env)
                if sv[0] == "str" and all(ord(c) < 128 for c in sv[1]) and all(v[0] == "int" for v in i_[1].values()):
                    lo = i_[1]["start"][1] if "start" in i_[1] else 0
                    hi = i_[1]["end"][1] if "end" in i_[1] else len(sv[1])
                    if not 0 <= lo <= hi <= len(sv[1]):
                        raise Unrecognised(f"string slice {lo}..{hi} out of bounds of {sv[1]!r}: would panic")
                    return ("str", sv[1][lo:hi])
            base = None
            if b_.get("k") == "def":
                base = self._const_value(b_["path"])
                if base is None and i_[0] == "int":
                    return ("idx", b_["path"], i_[1])
            else:
                try:
                    base = self.ev(b_, env)
                except Unrecognised:
                    base = None
            if base is not None and base[0] == "array" and i_[0] == "int":
                if 0 <= i_[1] < len(base) - 1:
                    return base[1 + i_[1]]
                raise Unrecognised(f"index {i_[1]} out of bounds of a {len(base) - 1}-element table")
            if base is not None and base[0] == "array" and i_[0] == "rec" and set(i_[1]) <= {"start", "end"} and all(v[0] == "int" for v in i_[1].values()):
                lo = i_[1]["start"][1] if "start" in i_[1] else 0
                hi = i_[1]["end"][1] if "end" in i_[1] else len(base) - 1
                if not 0 <= lo <= hi <= len(base) - 1:
                    raise Unrecognised(f"slice {lo}..{hi} out of bounds of a {len(base) - 1}-element sequence: would panic")
                return ("array",) + tuple(base[1 + lo:1 + hi])
            raise Unrecognised("indexing outside a constant table")
        if k == "closure":
            return ("closure", e, env)
        if k == "struct":
            rec = {}
            if "base" in e and isinstance(e["base"], dict):
                bv = self.ev(e["base"], env)
                if bv[0] != "rec":
                    raise Unrecognised("struct update from a non-record value")
                rec.update(bv[1])
            for f in e.get("fields", []):
                rec[f["name"]] = self.ev(f["e"], env)
            if isinstance(e.get("path"), dict) and e["path"].get("dk") == "Variant":
                return ("ctor", e["path"].get("path"), ("rec", rec))       # a struct-like enum variant keeps its name
            return ("rec", rec)
        if k == "array":
            return ("array",) + tuple(self.ev(x, env) for x in e["es"])
        if k == "tuple" and not e["es"]:
            return ("unit",)
        if k == "tuple":
            return ("tuple",) + tuple(self.ev(x, env) for x in e["es"])
        if k == "cast":
            v = self.ev(e["e"], env)
            if v[0] == "enum" and str(e.get("ty", "")) in INT_TYS:
                d = self._discr(v[1])
                if d is None:
                    raise Unrecognised(f"discriminant of {v[1]} unknown")
                return ("int", d)
            ty_ = str(e.get("ty", ""))
            if v[0] == "int" and ty_ in _INT_WIDTH:
                # a concrete integer narrowed (or reinterpreted) by `as`: wraps to the target type
                bits_, signed_ = _INT_WIDTH[ty_]
                n_ = v[1] & ((1 << bits_) - 1)
                if signed_ and n_ >= 1 << (bits_ - 1):
                    n_ -= 1 << bits_
                return ("int", n_)
            return v
        if k in ("assign",):
            l = hir.simp(e["l"])
            if l.get("k") == "index":
                ps_ = hir.place_str(hir.simp(l["e"]))
                if ps_ is not None and ("store:" + ps_) in self.atoms:
                    i_ = self.ev(l["i"], env)            # Rust evaluates the right-hand side first, both are pure here
                    self.atoms["store:" + ps_]([i_, self.ev(e["r"], env)])
                    return ("unit",)
            v = self.ev(e["r"], env)
            self._store(l, v, env)
            return ("unit",)
        if k == "assignop":
            name = (e.get("resolved") or e.get("callee") or e.get("op"))
            for key in (name, e.get("op")):
                if key in self.atoms:
                    old = self.ev(e["l"], env)
                    new = self.atoms[key]([old, self.ev(e["r"], env)])
                    self._store(hir.simp(e["l"]), new, env)
                    return ("unit",)
            if name and name != e.get("op"):
                crate = name.lstrip("<&").split("::")[0]
                if crate in self.inline_crates and name in self.facts.crate(crate)["_bodies"]:
                    # an overloaded compound assignment: the impl runs on (&mut place, rhs); what it leaves in `self` is stored back
                    l = hir.simp(e["l"])
                    fin = []
                    self.call_fn(crate, name, [self.ev(e["l"], env), self.ev(e["r"], env)], final=fin)
                    if fin and fin[0] is not None:
                        self._store(l, fin[0], env)
                        return ("unit",)
            base_op = str(e.get("op", ""))[:-len("Assign")] if str(e.get("op", "")).endswith("Assign") else None
            if base_op and not (e.get("resolved") or e.get("callee")):
                # a primitive compound assignment: `p op= v` is `p = p op v`
                l = hir.simp(e["l"])
                new = self.ev({"k": "bin", "op": base_op, "l": e["l"], "r": e["r"], "ty": l.get("ty"), "ln": e.get("ln")}, env)
                self._store(l, new, env)
                return ("unit",)
            raise Unrecognised(f"compound assignment {e.get('op')}")
        if k == "call":
            return self.call(e, env)
        import hirpp
        raise Unrecognised(f"expression `{hirpp.expr(e)[:80]}` (line {e.get('ln', '?')}, kind {k}) is outside the abstract evaluator")

    def stmt(self, s, env):
        s = hir.simp(s)
        if s.get("k") == "let":
            v = self.ev(s["init"], env)
            if not self.bind(s["pat"], v, env):
                if isinstance(s.get("els"), dict):
                    self.ev(s["els"], env)           # `let PAT = v else { diverges }`
                    raise Unrecognised("the else block of a let-else does not diverge")
                raise Unrecognised("refutable let")
            return
        self.ev(s, env)

    def bind(self, p, v, env):
        k = p.get("k")
        if k == "pwild":
            return True
        if k == "pbind":
            env[p["name"]] = v
            return True
        if k == "ptuple":
            ps = p.get("pats", [])
            if not ps:
                return v == ("unit",)
            if v[0] != "tuple" or len(v) - 1 != len(ps):
                raise Unrecognised("tuple pattern against a non-tuple value")
            return all(self.bind(q, x, env) for q, x in zip(ps, v[1:]))
        if k in ("pts", "pstruct"):
            seg = hir.last_seg(hir.pat_path(p))
            sub = p["pats"][0] if k == "pts" and p["pats"] else (p["fields"][0]["p"] if k == "pstruct" and p["fields"] else None)
            if seg in ("Some", "None") and v[0] not in ("some", "none"):
                # an Option whose variant is not known cannot be matched (answering "no match" would silently take the other arm)
                raise Unrecognised(f"pattern {seg} against a value that is not known to be Some or None ({str(v)[:40]})")
            if seg in ("Ok", "Err") and v[0] not in ("ok", "err"):
                raise Unrecognised(f"pattern {seg} against a value that is not known to be Ok or Err ({str(v)[:40]})")
            if seg == "Some":
                return v[0] == "some" and (sub is None or self.bind(sub, v[1], env))
            if seg == "None":
                return v[0] == "none"
            if seg == "Ok":
                return v[0] == "ok" and (sub is None or self.bind(sub, v[1], env))
            if seg == "Err":
                return v[0] == "err" and (sub is None or self.bind(sub, v[1], env))
            if v[0] == "rec" and k == "pstruct":
                for f in p.get("fields", []):
                    if f["name"] not in v[1]:
                        raise Unrecognised(f"struct pattern names field {f['name']} the value does not have")
                    if not self.bind(f["p"], v[1][f["name"]], env):
                        return False
                return True
            if v[0] == "ctor":
                subs = p["pats"] if k == "pts" else [f["p"] for f in p.get("fields", [])]
                if hir.pat_path(p) != v[1]:
                    return False
                if len(subs) != len(v) - 2:
                    raise Unrecognised("constructor pattern arity")
                return all(self.bind(q, x, env) for q, x in zip(subs, v[2:]))
            if v[0] == "enum":
                return False if hir.pat_path(p) != v[1] else True
            raise Unrecognised(f"pattern {seg}")
        if k == "ppath":
            path = p["path"]
            if path.endswith("Option::None"):
                if v[0] not in ("some", "none"):
                    raise Unrecognised(f"pattern None against a value that is not known to be Some or None ({str(v)[:40]})")
                return v[0] == "none"
            if v[0] in ("sym", "app", "bin", "not"):
                raise Unrecognised(f"pattern {path.split('::')[-1]} against an unknown value ({str(v)[:40]})")
            if v[0] in ("int", "str", "bool"):
                # a constant used as a pattern (`MAX => ..`): compared by value
                cv = self.consts.get(path)
                if isinstance(cv, bool):
                    cv = ("bool", cv)
                elif isinstance(cv, int):
                    cv = ("int", cv)
                elif isinstance(cv, str):
                    cv = ("str", cv)
                if not isinstance(cv, tuple):
                    cv = self._const_value(path)
                if cv is None:
                    raise Unrecognised(f"constant pattern {path} of unknown value")
                return cv == v
            if v[0] in ("ctor", "rec", "tuple", "array", "some", "none", "char") and not str(p.get("dk", "")).startswith("Ctor("):
                # a constant of a structured type used as a pattern (`Self::PLAIN => ..`): compared by value, which must be known
                cv = self.consts.get(path)
                if not isinstance(cv, tuple):
                    cv = self._const_value(path)
                if cv is None:
                    raise Unrecognised(f"constant pattern {path} of unknown value")
                if cv == v:
                    return True
                if _has_unknown(v) or _has_unknown(cv):
                    raise Unrecognised(f"constant pattern {path.split('::')[-1]} against a partly unknown value ({str(v)[:40]})")
                return False
            return v[0] == "enum" and v[1] == path
        if k == "por":
            return any(self.bind(q, v, env) for q in p["pats"])
        if k in ("pref", "pderef") and isinstance(p.get("p"), dict):
            return self.bind(p["p"], v, env)
        if k == "prange":
            if v[0] == "int":
                return v[1] in hir.pat_ints(p)
            raise Unrecognised("range pattern against a non-integer")
        if k == "lit":
            if p.get("t") == "int" and v[0] == "sym":
                return self.oracle((v[1], ("int", p["v"])))
            if v[0] in ("sym", "app", "bin", "not"):
                raise Unrecognised(f"literal pattern against an unknown value ({str(v)[:40]})")
            if p.get("t") == "bool":
                return v == ("bool", p["v"])
            if p.get("t") == "int":
                return v[0] == "int" and v[1] == p["v"]
            if p.get("t") == "str":
                return v[0] == "str" and v[1] == p["v"]
        raise Unrecognised(f"pattern kind {k}")

    def _values_equal(self, a, b):
        if a == b:
            return True
        if a[0] == "sym" or b[0] == "sym":
            x, y = (a, b) if a[0] == "sym" else (b, a)
            return self.oracle((x[1], y))
        if a[0] == "some" and b[0] == "some":
            return self._values_equal(a[1], b[1])
        return False

    def _store(self, l, v, env):
        if self._store_field(l, v, env):
            return
        li = hir.simp(l)
        if li.get("k") == "index":
            # `a[i] = v` on a concrete array at a concrete index: functional update of the array, stored back into its place
            try:
                base_v, iv = self.ev(li["e"], env), self.ev(li["i"], env)
            except Unrecognised:
                base_v = iv = None
            if base_v is not None and base_v[0] == "array" and iv[0] == "int":
                if not 0 <= iv[1] < len(base_v) - 1:
                    raise Unrecognised(f"store at index {iv[1]} of an array of {len(base_v) - 1}")
                self._store(hir.peel(li["e"]), base_v[:iv[1] + 1] + (v,) + base_v[iv[1] + 2:], env)
                return
        key = l["name"] if l.get("k") == "local" else hir.place_str(l)
        if key is None:
            raise Unrecognised("assignment to an untracked place")
        if isinstance(env, Env) and key in env:
            env.assign(key, v)
        elif isinstance(env, Env):
            root = env
            while root.parent is not None:
                root = root.parent
            dict.__setitem__(root, key, v)
        else:
            env[key] = v
        self.stores.append((key, v))

    def _store_field(self, l, v, env):
        """`base.f = v` where base is a local holding a record value: functional update of the record."""
        l = hir.peel(l) if l.get("k") != "field" else l
        if l.get("k") != "field":
            return False
        base = hir.peel(l["e"])
        if base.get("k") == "local" and base["name"] in env and env[base["name"]][0] == "ctor" and l["name"].isdigit() \
                and int(l["name"]) + 2 < len(env[base["name"]]):
            old = env[base["name"]]
            i = int(l["name"]) + 2
            new = old[:i] + (v,) + old[i + 1:]
            if isinstance(env, Env):
                env.assign(base["name"], new)
            else:
                env[base["name"]] = new
            self.stores.append((hir.place_str(l), v))
            return True
        if base.get("k") == "local" and base["name"] in env and env[base["name"]][0] == "rec":
            rec = dict(env[base["name"]][1])
            rec[l["name"]] = v
            new = ("rec", rec)
            if isinstance(env, Env):
                env.assign(base["name"], new)
            else:
                env[base["name"]] = new
            self.stores.append((hir.place_str(l), v))
            return True
        return False

    def apply(self, clo, args):
        if clo[0] == "enum":          # a function item used as a value (`.map(is_bright)`)
            path = clo[1]
            if path in self.atoms:
                a = self.atoms[path]
                return a(args) if callable(a) else a
            crate = path.lstrip("<&").split("::")[0]
            if crate in self.inline_crates and path in self.facts.crate(crate)["_bodies"]:
                return self.call_fn(crate, path, args)
            if path.endswith("Option::Some") and len(args) == 1:
                return ("some", args[0])
            if path.endswith("Result::Ok") and len(args) == 1:
                return ("ok", args[0])
            if path.endswith("Result::Err") and len(args) == 1:
                return ("err", args[0])
            if self._is_tuple_ctor(path, len(args)):
                return ("ctor", path) + tuple(args)          # a tuple-variant / tuple-struct constructor used as a function
        if clo[0] == "enum" and clo[1].startswith(("core::", "alloc::", "std::", "<core::", "<alloc::", "<std::")):
            # a std function item used as a value (`.map(str::parse::<u8>)`): the call it stands for
            sig = getattr(self, "_fn_ty", {}).get(clo[1], "")
            ret = sig.split(" -> ", 1)[1].rsplit(" {", 1)[0] if " -> " in sig else ""
            node = {"k": "call", "callee": clo[1], "args": [{"k": "__val", "v": a} for a in args], "ty": ret}
            return self.call(node, Env())
        if clo[0] != "closure":
            raise Unrecognised("call of a non-closure value")
        node, cenv = clo[1], clo[2]
        env2 = Env(cenv) if isinstance(cenv, Env) else Env(_as_env(cenv))
        for p, a in zip(node.get("params", []), args):
            if not self.bind(p, a, env2):
                raise Unrecognised("refutable closure parameter")
        return self.ev(node["body"], env2)

    def call(self, e, env):
        cal0 = e.get("resolved") or e.get("callee") or ""
        if self.concrete_strings and "fmt:sink" in self.atoms and len(e.get("args", [])) == 2 and \
                cal0 in ("core::fmt::Formatter::<'a>::write_fmt", "core::fmt::Write::write_fmt", "std::io::Write::write_fmt"):
            # `write!(f, "..{}..", x)`: the text it hands to the formatter, for plain `{}` of strings and integers
            pieces, fargs = hir.fmt_template(e["args"][1])
            text = ""
            for pc in pieces:
                if isinstance(pc, str):
                    if isinstance(text, list):
                        text[-1] += pc
                    else:
                        text += pc
                    continue
                if len(pc) != 3 or pc[2] != "new_display":
                    raise Unrecognised(f"format placeholder {pc[2:]} is not a plain Display")
                v = self.ev(fargs[pc[1]], env)
                if v[0] == "str" and not isinstance(text, list):
                    text += v[1]
                elif v[0] == "int" and not isinstance(text, list):
                    text += str(v[1])
                elif v[0] in ("str", "int"):
                    pass
                elif getattr(self, "fmt_symbolic", False):
                    # the written text as a sequence of literal pieces and displayed values that are not known strings
                    if not isinstance(text, list):
                        text = [text]
                    text.append(("shown", v))
                    text.append("")
                    continue
                else:
                    raise Unrecognised(f"Display of {str(v)[:40]}")
                if isinstance(text, list):
                    text[-1] += v[1] if v[0] == "str" else str(v[1])
                    text = text      # (the literal tail keeps growing in place)
            if isinstance(text, list):
                return self.atoms["fmt:sink"]([self.ev(e["args"][0], env), ("pieces",) + tuple(x for x in text if x != "")])
            return self.atoms["fmt:sink"]([self.ev(e["args"][0], env), ("str", text)])
        if e.get("ctor", "").endswith("Option::Some"):
            return ("some", self.ev(e["args"][0], env))
        if e.get("ctor", "").endswith("Result::Ok"):
            return ("ok", self.ev(e["args"][0], env))
        if e.get("ctor", "").endswith("Result::Err"):
            return ("err", self.ev(e["args"][0], env))
        if e.get("ctor") and e["ctor"] not in self.atoms:
            return ("ctor", e["ctor"]) + tuple(self.ev(a, env) for a in e["args"])
        if "f" in e and not (e.get("resolved") or e.get("callee")):
            key = "call:" + str(hir.place_str(e["f"]))
            if key in self.atoms:
                a = self.atoms[key]
                return a([self.ev(x, env) for x in e["args"]]) if callable(a) else a
            fv = None
            try:
                fv = self.ev(e["f"], env)
            except Unrecognised:
                pass
            if fv is not None and fv[0] in ("closure", "enum"):
                return self.apply(fv, [self.ev(x, env) for x in e["args"]])      # a local closure / function item called by name
            raise Unrecognised(f"indirect call through {key}")
        cal = hir.callee(e)
        decl = hir.callee_decl(e)
        for name in (cal, decl):
            if name in self.atoms:
                if name != cal and getattr(self, "prefer_local_impls", False) and cal.lstrip("<&").split("::")[0] in self.inline_crates \
                        and cal in self.facts.crate(cal.lstrip("<&").split("::")[0])["_bodies"]:
                    continue          # the trait method resolves to an impl of an inlinable crate: that impl is evaluated instead
                a = self.atoms[name]
                if callable(a):
                    return a([self.ev(x, env) for x in e["args"]])
                return a
        if cal.endswith("::copy_from_slice") and cal.startswith("core::slice::") and len(e.get("args", [])) == 2:
            # `place[a..b].copy_from_slice(src)` on a concrete array: the range of the array replaced (lengths must agree — the
            # call panics otherwise), stored back into the place
            dst = hir.peel(e["args"][0])
            di = hir.simp(dst)
            src = self.ev(e["args"][1], env)
            if di.get("k") == "index" and src[0] == "array":
                base_v, rng = self.ev(di["e"], env), self.ev(di["i"], env)
                if base_v[0] == "array" and rng[0] == "rec" and set(rng[1]) <= {"start", "end"} and all(v[0] == "int" for v in rng[1].values()):
                    lo = rng[1]["start"][1] if "start" in rng[1] else 0
                    hi = rng[1]["end"][1] if "end" in rng[1] else len(base_v) - 1
                    if not 0 <= lo <= hi <= len(base_v) - 1 or hi - lo != len(src) - 1:
                        raise Unrecognised(f"copy_from_slice of {len(src) - 1} elements into {lo}..{hi} of {len(base_v) - 1}: would panic")
                    self._store(hir.peel(di["e"]), base_v[:1 + lo] + tuple(src[1:]) + base_v[1 + hi:], env)
                    return ("unit",)
            elif src[0] == "array":
                base_v = self.ev(dst, env)
                if base_v[0] == "array" and len(base_v) == len(src) and hir.place_str(dst) is not None:
                    self._store(dst, src, env)
                    return ("unit",)
            raise Unrecognised("copy_from_slice outside concrete arrays")
        if cal == "std::env::var_os":
            if self.env_vars is None:
                raise Unrecognised("environment read where none was expected")
            name = self.ev(e["args"][0], env)
            if name[0] != "str":
                raise Unrecognised("var_os with a non-literal name")
            self.read_vars.append(name[1])
            val = self.env_vars.get(name[1])
            return ("none",) if val is None else ("some", ("str", val))
        if cal in ("core::mem::replace", "core::mem::take") and e.get("args"):
            key = hir.place_str(hir.peel(e["args"][0]))
            if key is None or key not in env:
                raise Unrecognised(f"{cal} on an untracked place")
            old = env[key]
            if cal.endswith("replace"):
                new = self.ev(e["args"][1], env)
            else:           # mem::take leaves the type's Default
                new = {"array": ("array",), "int": ("int", 0), "str": ("str", ""), "some": ("none",), "none": ("none",), "bool": ("bool", False)}.get(old[0], ("default",))
            if isinstance(env, Env):
                env.assign(key, new)
            else:
                env[key] = new
            self.stores.append((key, new))
            return old
        args = [self.ev(a, env) for a in e["args"]]
        short = cal.split("::")[-1]
        if cal.startswith("core::option::Option::<T>::"):
            o = args[0]
            if short in ("as_deref", "as_ref"):
                return o
            if o[0] not in ("some", "none"):
                raise Unrecognised(f"Option::{short} on a value that is not known to be Some or None ({str(o)[:40]})")
            if short == "unwrap_or_default":
                return o[1] if o[0] == "some" else ("str", "")
            if short == "unwrap_or":
                return o[1] if o[0] == "some" else args[1]
            if short in ("unwrap", "expect", "unwrap_unchecked"):
                if o[0] == "some":
                    return o[1]
                raise Unrecognised(f"Option::{short} on None: would panic")
            if short == "is_some":
                return ("bool", o[0] == "some")
            if short == "is_none":
                return ("bool", o[0] == "none")
            if o[0] in ("some", "none"):
                if short == "map":
                    return ("some", self.apply(args[1], [o[1]])) if o[0] == "some" else o
                if short == "and_then":
                    return self.apply(args[1], [o[1]]) if o[0] == "some" else o
                if short == "map_or":
                    return self.apply(args[2], [o[1]]) if o[0] == "some" else args[1]
                if short == "map_or_else":
                    return self.apply(args[2], [o[1]]) if o[0] == "some" else self.apply(args[1], [])
                if short == "is_some_and":
                    return self.apply(args[1], [o[1]]) if o[0] == "some" else ("bool", False)
                if short == "unwrap_or_else":
                    return o[1] if o[0] == "some" else self.apply(args[1], [])
                if short == "filter":
                    return o if o[0] == "some" and self.truth(self.apply(args[1], [o[1]])) else ("none",)
                if short == "or":
                    return o if o[0] == "some" else args[1]
                if short == "ok_or":
                    return ("ok", o[1]) if o[0] == "some" else ("err", args[1])
        if cal.startswith("core::result::Result::<T, E>::"):
            r = args[0]
            if r[0] in ("ok", "err"):
                if short == "is_ok":
                    return ("bool", r[0] == "ok")
                if short == "is_err":
                    return ("bool", r[0] == "err")
                if short == "map_err":
                    return ("err", self.apply(args[1], [r[1]])) if r[0] == "err" else r
                if short == "map":
                    return ("ok", self.apply(args[1], [r[1]])) if r[0] == "ok" else r
                if short == "ok":
                    return ("some", r[1]) if r[0] == "ok" else ("none",)
                if short == "err":
                    return ("some", r[1]) if r[0] == "err" else ("none",)
                if short in ("and_then",):
                    return self.apply(args[1], [r[1]]) if r[0] == "ok" else r
                if short in ("or_else",):
                    return self.apply(args[1], [r[1]]) if r[0] == "err" else r
                if short in ("unwrap", "expect"):
                    if r[0] == "ok":
                        return r[1]
                    raise Unrecognised(f"Result::{short} on an Err: would panic")
        if short in ("into_iter", "iter") and len(args) == 1 and args[0][0] == "array":
            return args[0]                  # an array iterated in order is the sequence of its elements
        if short == "fold" and len(args) == 3 and args[0][0] == "array":
            acc = args[1]
            for el in args[0][1:]:
                acc = self.apply(args[2], [acc, el])
            return acc
        if short in ("get",) and args and args[0][0] == "array" and len(args) == 2 and args[1][0] == "int":
            return ("some", args[0][1 + args[1][1]]) if 0 <= args[1][1] < len(args[0]) - 1 else ("none",)
        if short in ("copied", "cloned") and args and args[0][0] in ("some", "none"):
            return args[0]
        if short == "len" and args and args[0][0] == "array":
            return ("int", len(args[0]) - 1)
        if short == "transmute" and "transmute" in self.atoms:
            return self.atoms["transmute"](args + [e.get("ty")])
        if short == "is_empty" and args and args[0][0] == "str":
            return ("bool", args[0][1] == "")
        if short in ("from_utf8_unchecked", "from_utf8") and self.concrete_strings and len(args) == 1 and args[0][0] == "array" \
                and all(x[0] == "int" and 0 <= x[1] < 256 for x in args[0][1:]) and cal.startswith("core::str::"):
            try:
                text = bytes(x[1] for x in args[0][1:]).decode("utf-8")
            except UnicodeDecodeError:
                if short == "from_utf8":
                    return ("err", ("sym", "utf8-error"))
                raise Unrecognised("from_utf8_unchecked of bytes that are not UTF-8")
            return ("str", text) if short == "from_utf8_unchecked" else ("ok", ("str", text))
        if args and args[0][0] == "str" and self.concrete_strings:
            v = self._str_method(short, cal, args, e)
            if v is not None:
                return v
        if args and args[0][0] == "rec" and set(args[0][1]) == {"start", "end"} and all(v[0] == "int" for v in args[0][1].values()) \
                and short in ("map", "find", "position", "all", "any", "filter_map", "into_iter", "rev", "next", "collect") \
                and 0 <= args[0][1]["end"][1] - args[0][1]["start"][1] <= 4096:
            # a concrete integer range is the sequence of its values
            rng = ("array",) + tuple(("int", i_) for i_ in range(args[0][1]["start"][1], args[0][1]["end"][1]))
            args = [rng] + list(args[1:])
            if short in ("find", "position", "all", "any", "map", "filter_map"):
                seq = rng
                if short == "map":
                    return ("array",) + tuple(self.apply(args[1], [x]) for x in seq[1:])
                if short == "filter_map":
                    out_ = [self.apply(args[1], [x]) for x in seq[1:]]
                    return ("array",) + tuple(o[1] for o in out_ if o[0] == "some")
                if short == "all":
                    return ("bool", all(self.truth(self.apply(args[1], [x])) for x in seq[1:]))
                if short == "any":
                    return ("bool", any(self.truth(self.apply(args[1], [x])) for x in seq[1:]))
                for i_, x in enumerate(seq[1:]):
                    if self.truth(self.apply(args[1], [x])):
                        return ("some", x) if short == "find" else ("some", ("int", i_))
                return ("none",)
            if short in ("into_iter", "collect"):
                return rng
        elif args and args[0][0] == "rec" and set(args[0][1]) == {"start", "end"} and all(v[0] == "int" for v in args[0][1].values()) \
                and short in ("map", "find", "position", "all", "any") and args[0][1]["end"][1] < args[0][1]["start"][1]:
            return {"map": ("array",), "find": ("none",), "position": ("none",), "all": ("bool", True), "any": ("bool", False)}[short]   # empty range
        if self.concrete_strings and short == "new" and not args and any(x in str(e.get("ty", "")) for x in ("VecDeque<", "Vec<")):
            return ("array",)
        if args and args[0][0] == "rec" and cal.startswith("core::iter::traits::iterator::Iterator::") and \
                short in ("enumerate", "zip", "take", "skip", "rev", "filter", "map", "count", "last", "copied", "cloned", "chain", "collect",
                          "fold", "for_each", "all", "any", "find", "position", "filter_map"):
            # an adaptor over a value whose own `Iterator::next` is a function of an inlinable crate: its items first
            ty0 = str(hir.simp(e["args"][0]).get("ty", ""))
            nxt = self._find_impl(ty0, "core::iter::traits::iterator::Iterator>::next") if ty0 else None
            if nxt:
                it_, out_ = args[0], []
                for _ in range(LOOP_BOUND):
                    fin_ = []
                    r_ = self.call_fn(nxt[0], nxt[1], [it_], final=fin_)
                    if fin_ and fin_[0] is not None:
                        it_ = fin_[0]
                    if r_[0] == "none":
                        break
                    if r_[0] != "some":
                        raise Unrecognised(f"iterator yields {str(r_)[:40]}")
                    out_.append(r_[1])
                else:
                    raise Unrecognised("iterator does not finish within the bound")
                args = [("array",) + tuple(out_)] + list(args[1:])
                if short == "fold" and len(args) == 3:
                    acc = args[1]
                    for el in args[0][1:]:
                        acc = self.apply(args[2], [acc, el])
                    return acc
                if short == "for_each" and len(args) == 2:
                    for el in args[0][1:]:
                        self.apply(args[1], [el])
                    return ("unit",)
        if args and args[0][0] == "array" and cal.startswith(("core::iter::", "core::slice::", "<core::slice::", "<[", "core::array::", "<core::array::", "alloc::vec::", "<alloc::vec::")):
            # pure adaptors over a known sequence
            seq = args[0]
            if short == "zip" and len(args) == 2 and args[1][0] == "array":
                return ("array",) + tuple(("tuple", x, y) for x, y in zip(seq[1:], args[1][1:]))
            if short == "enumerate" and len(args) == 1:
                return ("array",) + tuple(("tuple", ("int", i_), x) for i_, x in enumerate(seq[1:]))
            if short in ("take", "skip") and len(args) == 2 and args[1][0] == "int":
                return ("array",) + (seq[1:1 + args[1][1]] if short == "take" else seq[1 + args[1][1]:])
            if short == "rev" and len(args) == 1:
                return ("array",) + tuple(reversed(seq[1:]))
            if short in ("copied", "cloned") and len(args) == 1:
                return seq
            if short == "chain" and len(args) == 2 and args[1][0] == "array":
                return seq + args[1][1:]
            if short == "filter" and len(args) == 2:
                return ("array",) + tuple(x for x in seq[1:] if self.truth(self.apply(args[1], [x])))
            if short == "count" and len(args) == 1:
                return ("int", len(seq) - 1)
            if short == "last" and len(args) == 1:
                return ("some", seq[-1]) if len(seq) > 1 else ("none",)
        if args and args[0][0] == "array" and (self.concrete_strings or short in ("map", "find", "position")):
            seq = args[0]
            if short == "map" and len(args) == 2:
                return ("array",) + tuple(self.apply(args[1], [x]) for x in seq[1:])
            if short == "filter_map" and len(args) == 2:
                out_ = [self.apply(args[1], [x]) for x in seq[1:]]
                return ("array",) + tuple(o[1] for o in out_ if o[0] == "some")
            if short == "collect" and len(args) == 1:
                ty = str(e.get("ty", ""))
                if ty.startswith("core::option::Option<"):
                    if all(x[0] == "some" for x in seq[1:]):
                        return ("some", ("array",) + tuple(x[1] for x in seq[1:]))
                    if all(x[0] in ("some", "none") for x in seq[1:]):
                        return ("none",)
                    raise Unrecognised("collect into Option of values that are not known Options")
                if ty.startswith("core::result::Result<"):
                    for x in seq[1:]:
                        if x[0] == "err":
                            return x
                    if all(x[0] == "ok" for x in seq[1:]):
                        return ("ok", ("array",) + tuple(x[1] for x in seq[1:]))
                    raise Unrecognised("collect into Result of values that are not known Results")
                return seq
            if short in ("pop_front", "next") and len(args) == 1:
                pl = hir.peel(hir.simp(e["args"][0]))
                if hir.place_str(pl) is None:
                    raise Unrecognised(f"{short} on a temporary sequence")
                self._store(pl, ("array",) + tuple(seq[2:]), env)
                return ("some", seq[1]) if len(seq) > 1 else ("none",)
            if short in ("pop_back", "pop", "next_back") and len(args) == 1:
                pl = hir.peel(hir.simp(e["args"][0]))
                if hir.place_str(pl) is None:
                    raise Unrecognised(f"{short} on a temporary sequence")
                self._store(pl, seq[:-1] if len(seq) > 1 else seq, env)
                return ("some", seq[-1]) if len(seq) > 1 else ("none",)
            if short in ("push_back", "push") and len(args) == 2:
                pl = hir.peel(hir.simp(e["args"][0]))
                if hir.place_str(pl) is None:
                    raise Unrecognised(f"{short} on a temporary sequence")
                self._store(pl, seq + (args[1],), env)
                return ("unit",)
            if short == "is_empty" and len(args) == 1:
                return ("bool", len(seq) == 1)
            if short == "join" and len(args) == 2 and args[1][0] == "str":
                if all(x[0] == "str" for x in seq[1:]):
                    return ("str", args[1][1].join(x[1] for x in seq[1:]))
                return ("joined", args[1]) + tuple(seq[1:])          # a list with unknown members, joined: kept as such
            if short in ("front", "first") and len(args) == 1:
                return ("some", seq[1]) if len(seq) > 1 else ("none",)
            if short == "all" and len(args) == 2:
                return ("bool", all(self.truth(self.apply(args[1], [x])) for x in args[0][1:]))
            if short == "any" and len(args) == 2:
                return ("bool", any(self.truth(self.apply(args[1], [x])) for x in args[0][1:]))
            if short == "find" and len(args) == 2:
                for x in args[0][1:]:
                    if self.truth(self.apply(args[1], [x])):
                        return ("some", x)
                return ("none",)
            if short == "position" and len(args) == 2:
                for i_, x in enumerate(args[0][1:]):
                    if self.truth(self.apply(args[1], [x])):
                        return ("some", ("int", i_))
                return ("none",)
        if short == "is_ascii_hexdigit" and args and args[0][0] == "int":
            return ("bool", chr(args[0][1]) in "0123456789abcdefABCDEF" if 0 <= args[0][1] < 128 else False)
        if short == "is_ascii_digit" and args and args[0][0] == "int":
            return ("bool", 48 <= args[0][1] <= 57)
        if short == "from_str_radix" and len(args) == 2 and args[0][0] == "str" and args[1][0] == "int" and self.concrete_strings:
            return self._parse_int(args[0][1], args[1][1], str(e.get("ty", "")))
        if cal.endswith("core::default::Default>::default") and not args:
            import re as _re
            m_ = _re.match(r"^<(\w+) as core::default::Default>::default$", cal)
            if m_ and m_.group(1) in INT_TYS:
                return ("int", 0)
            if m_ and m_.group(1) == "bool":
                return ("bool", False)
            if cal.startswith("<core::option::Option<"):
                return ("none",)
        if cal.startswith("core::array::<impl core::default::Default for [T;") and not args:
            import re as _re
            m_ = _re.match(r"^\[(\w+); (\d+)\]$", str(e.get("ty", "")))
            if m_ and m_.group(1) in INT_TYS:
                return ("array",) + (("int", 0),) * int(m_.group(2))
        if cal.endswith("core::convert::Into<U>>::into") and len(args) == 1:
            # the blanket `Into`: the `From` impl of the target type for the argument's type
            src_ty = str(hir.simp(e["args"][0]).get("ty", "")).lstrip("&")
            frm = f"<{e.get('ty')} as core::convert::From<{src_ty}>>::from"
            fcrate = str(e.get("ty", "")).split("::")[0]
            if fcrate in self.inline_crates and frm in self.facts.crate(fcrate)["_bodies"]:
                return self.call_fn(fcrate, frm, args)
        crate = cal.lstrip("<&").split("::")[0]
        if crate in self.inline_crates and cal in self.facts.crate(crate)["_bodies"]:
            first = hir.simp(e["args"][0]) if e.get("args") else None
            by_mut = first is not None and (str(e.get("recv_adj_ty", "")).startswith("&mut") or (first.get("k") == "ref" and first.get("mut")))
            if by_mut and hir.place_str(hir.peel(first)) is not None:
                fin = []
                r = self.call_fn(crate, cal, args, final=fin)
                if fin and fin[0] is not None and fin[0] != args[0]:
                    self._store(hir.peel(first), fin[0], env)
                return r
            return self.call_fn(crate, cal, args)
        if "*" in self.atoms:
            # a call outside the inlinable crates, kept as an uninterpreted application; a `&mut` receiver's place then holds
            # "the call applied to what it held" (the callee can only change the object through that reference)
            v = self.atoms["*"](cal, args, e)
            if v is not None:
                first = hir.simp(e["args"][0]) if e.get("args") else None
                by_mut = first is not None and (str(e.get("recv_adj_ty", "")).startswith("&mut") or (first.get("k") == "ref" and first.get("mut")))
                if by_mut:
                    pl = hir.peel(first)
                    if hir.place_str(pl) is None:
                        # `obj.set_a(x).set_b(y)`: the receiver is the `&mut Self` an earlier call on a place returned
                        origin = getattr(self, "_mutref", {}).get(repr(args[0]))
                        if origin is None:
                            raise Unrecognised(f"{cal} mutates a temporary")
                        pl = origin
                    self._store(pl, v, env)
                    if str(e.get("ty", "")).startswith("&mut"):
                        if not hasattr(self, "_mutref"):
                            self._mutref = {}
                        self._mutref[repr(v)] = pl
                return v
        raise Unrecognised(f"call to {cal}")


def _has_unknown(v):
    if not isinstance(v, tuple):
        return isinstance(v, dict) and any(_has_unknown(x) for x in v.values())
    if v and v[0] in ("sym", "app", "bin", "not"):
        return True
    return any(_has_unknown(x) for x in v[1:])


def _next_call(e):
    """The `Iterator::next(&mut iter)` call of a for-loop desugaring."""
    for n in hir.walk(hir.simp(e["arms"][0]["body"])):
        if n.get("k") == "match" and hir.is_call(hir.simp(n["scrut"]), "Iterator::next"):
            return hir.simp(n["scrut"])
    return None


_INT_WIDTH = {"u8": (8, False), "u16": (16, False), "u32": (32, False), "u64": (64, False), "u128": (128, False), "usize": (64, False),
              "i8": (8, True), "i16": (16, True), "i32": (32, True), "i64": (64, True), "i128": (128, True), "isize": (64, True)}
import re as _re_mod
_PRIM_REF_OP = _re_mod.compile(r"^<&?(?:'\w+ )?(u8|u16|u32|u64|usize|i8|i16|i32|i64|isize) as core::ops::(arith|bit)::\w+<&?(?:'\w+ )?\1>>::\w+$")


def _erase_lifetimes(t):
    import re as _re
    t = _re.sub(r"<'\w+>", "", t)
    t = _re.sub(r"'\w+,\s*", "", t)
    return _re.sub(r"'\w+\s*", "", t)


def _find_impl(self, self_ty, trait_method):
    """The body `<self_ty as Trait>::method` of an inlinable crate, matched up to lifetime names."""
    want = f"<{_erase_lifetimes(self_ty)} as {trait_method}"
    crate = self_ty.lstrip("&").replace("mut ", "").split("::")[0]
    if crate not in self.inline_crates:
        return None
    try:
        bodies = self.facts.crate(crate)["_bodies"]
    except Exception:
        return None
    for path in bodies:
        if path.startswith("<") and _erase_lifetimes(path) == want:
            return crate, path
    return None


Evaluator._find_impl = _find_impl


def _drain(self, e, it):
    """The items of a for loop over a value whose `Iterator::next` is a function of an inlinable crate: `next` is evaluated on
    the iterator value until it yields None (bounded)."""
    nx = _next_call(e)
    cal = hir.callee(nx) if nx else ""
    if nx and cal == "core::iter::traits::iterator::Iterator::next":
        # the desugaring names the trait method; the impl is the one of the iterator's type
        ty = str(hir.simp(nx["args"][0]).get("ty", "")).replace("&mut ", "", 1)
        if not ty and hir.is_call(hir.simp(e["scrut"]), "IntoIterator::into_iter"):
            ty = str(hir.simp(hir.simp(e["scrut"])["args"][0]).get("ty", ""))       # (a loop the normaliser built)
        cal = f"<{ty} as core::iter::traits::iterator::Iterator>::next"
    crate = cal.lstrip("<&").split("::")[0]
    if not (crate in self.inline_crates and cal in self.facts.crate(crate)["_bodies"]):
        # `for x in &collection`: the collection's own IntoIterator, then its iterator's next
        sc = hir.simp(e["scrut"])
        found = None
        if hir.is_call(sc, "IntoIterator::into_iter"):
            arg_ty = str(hir.simp(sc["args"][0]).get("ty", ""))
            conv = self._find_impl(arg_ty, "core::iter::traits::collect::IntoIterator>::into_iter") if arg_ty else None
            nxt = self._find_impl(str(sc.get("ty", "")), "core::iter::traits::iterator::Iterator>::next") if sc.get("ty") else None
            if conv and nxt:
                it = self.call_fn(conv[0], conv[1], [it])
                found = nxt
        if not found:
            raise Unrecognised(f"for loop over {str(it)[:40]}")
        crate, cal = found
    out = []
    for _ in range(LOOP_BOUND):
        fin = []
        r = self.call_fn(crate, cal, [it], final=fin)
        if fin and fin[0] is not None:
            it = fin[0]
        if r[0] == "none":
            return ("array",) + tuple(out)
        if r[0] != "some":
            raise Unrecognised(f"iterator yields {str(r)[:40]}")
        out.append(r[1])
    raise Unrecognised("iterator does not finish within the bound")


Evaluator._drain = _drain


def _as_env(d):
    e = Env()
    for k, v in d.items():
        dict.__setitem__(e, k, v)
    return e
