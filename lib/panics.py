"""Panic-site inventory (ground truth: MIR) matched to HIR nodes, with interval / guard discharge rules."""
import hir
import hirpp
import mir
from core import Unrecognised

INT_RANGE = {
    "u8": (0, 255), "u16": (0, 65535), "u32": (0, 2 ** 32 - 1), "u64": (0, 2 ** 64 - 1), "usize": (0, 2 ** 64 - 1),
    "i8": (-128, 127), "i16": (-32768, 32767), "i32": (-2 ** 31, 2 ** 31 - 1), "i64": (-2 ** 63, 2 ** 63 - 1), "isize": (-2 ** 63, 2 ** 63 - 1),
    "u128": (0, 2 ** 128 - 1), "i128": (-2 ** 127, 2 ** 127 - 1),
}
BITS = {"u8": 8, "i8": 8, "u16": 16, "i16": 16, "u32": 32, "i32": 32, "u64": 64, "i64": 64, "usize": 64, "isize": 64, "u128": 128, "i128": 128}

ARITH = {"Add": "Overflow(Add)", "Sub": "Overflow(Sub)", "Mul": "Overflow(Mul)", "Shl": "Overflow(Shl)", "Shr": "Overflow(Shr)",
         "Div": "DivisionByZero", "Rem": "RemainderByZero",
         "AddAssign": "Overflow(Add)", "SubAssign": "Overflow(Sub)", "MulAssign": "Overflow(Mul)", "ShlAssign": "Overflow(Shl)",
         "ShrAssign": "Overflow(Shr)", "DivAssign": "DivisionByZero", "RemAssign": "RemainderByZero"}

PANIC_CALLS = (
    "core::panicking::", "core::option::Option::<T>::unwrap", "core::option::Option::<T>::expect",
    "core::result::Result::<T, E>::unwrap", "core::result::Result::<T, E>::expect", "core::option::unwrap_failed", "core::option::expect_failed",
    "core::result::unwrap_failed", "core::slice::<impl [T]>::split_at", "core::str::<impl str>::split_at", "core::slice::<impl [T]>::copy_from_slice",
    "alloc::vec::Vec::<T, A>::remove", "alloc::vec::Vec::<T, A>::swap_remove", "alloc::vec::Vec::<T, A>::insert", "alloc::vec::Vec::<T, A>::drain",
    "alloc::vec::Vec::<T, A>::split_off", "alloc::string::String::remove", "alloc::string::String::insert", "core::cell::RefCell",
    "arrayvec::arrayvec::ArrayVec::<T, CAP>::push", "core::char::methods::<impl char>::from_digit", "core::slice::<impl [T]>::chunks",
    "core::slice::<impl [T]>::windows", "core::iter::traits::iterator::Iterator::step_by", "core::str::<impl str>::split_at",
)
NOT_PANIC = ("unwrap_or", "unwrap_or_else", "unwrap_or_default", "expect_err")

# Inherent methods of the std containers: many of them index or split and panic on a bad position (`drain(..3)` on a shorter
# VecDeque).  They are classified by name: the never-panicking ones below, everything else — documented panickers and methods
# this table has never seen — is a panic site that needs a discharge rule or an audited allowlist entry.
CONTAINER_PREFIXES = ("alloc::collections::vec_deque::VecDeque", "alloc::vec::Vec", "alloc::string::String", "core::slice::<impl [T]>",
                      "core::str::<impl str>", "alloc::str::<impl str>", "alloc::slice::<impl [T]>", "core::array::<impl [T; N]>")
CONTAINER_SAFE = frozenset("""
new with_capacity len is_empty capacity reserve reserve_exact shrink_to_fit clear push push_str push_back push_front pop pop_front
pop_back get get_mut first last first_mut last_mut front back front_mut back_mut iter iter_mut into_iter as_slice as_mut_slice
as_bytes as_str as_mut_str as_ptr as_mut_ptr bytes chars char_indices lines split splitn rsplit rsplitn split_once rsplit_once
split_terminator split_whitespace split_ascii_whitespace split_first split_last split_first_mut split_last_mut split_inclusive
contains starts_with ends_with find rfind position strip_prefix strip_suffix trim trim_start trim_end trim_matches
trim_start_matches trim_end_matches parse to_owned to_string to_vec into_bytes into_boxed_slice into_boxed_str to_lowercase
to_uppercase to_ascii_lowercase to_ascii_uppercase make_ascii_lowercase make_ascii_uppercase eq_ignore_ascii_case is_ascii
is_char_boundary extend extend_from_slice append retain retain_mut dedup dedup_by_key sort sort_unstable sort_by sort_by_key
sort_unstable_by sort_unstable_by_key reverse fill binary_search binary_search_by binary_search_by_key concat join iter_mut
from_utf8 from_utf8_lossy from_utf8_unchecked from_utf8_unchecked_mut from_raw_parts matches match_indices rmatches
contains_key entry insert_entry get_or_insert_with keys values values_mut get_key_value remove_entry map
is_sorted partition_point escape_ascii escape_debug escape_default encode_utf16 truncate_vec as_ref as_mut borrow borrow_mut
make_contiguous as_slices as_mut_slices split_at_checked split_at_mut_checked first_chunk last_chunk get_unchecked get_unchecked_mut
utf8_chunks char_count chunk_by repeat
""".split())


def is_panic_call(callee):
    if not callee:
        return False
    last = callee.split("::")[-1]
    if last in NOT_PANIC:
        return False
    if any(callee.startswith(p) for p in PANIC_CALLS):
        return True
    if any(callee.startswith(p) for p in CONTAINER_PREFIXES):
        # String::truncate / Vec::truncate: only the former panics (char boundary); both are treated as sites
        return last not in CONTAINER_SAFE
    if "core::ops::index::Index" in callee and callee.split("::")[-1] in ("index", "index_mut"):
        return True
    if "core::ops::arith::" in callee or "core::ops::bit::Sh" in callee:
        # operator traits on primitive integers through references: <&u16 as Sub<u16>>::sub
        for t in INT_RANGE:
            if f"<&{t} as " in callee or f"<{t} as " in callee or f" for &{t}>" in callee or f" for {t}>" in callee:
                return True
    return False


def kind_of_call(callee):
    if "core::ops::index::Index" in callee:
        return "call:index"
    if "core::ops::arith::" in callee or "core::ops::bit::Sh" in callee:
        return "call:int-op"
    return "call:" + callee.split("::")[-1]


def _const_arith_fits(blk, term):
    """The assert guards `a op b` of the same block with both operands constants whose result fits the operand type."""
    cond = term.get("cond", {})
    loc_ = (cond.get("move") or cond.get("copy") or {}).get("l")
    for st in blk.get("stmts", []):
        rv = st.get("rv", {}) if st.get("k") == "assign" else {}
        if st.get("p", {}).get("l") == loc_ and rv.get("k") == "bin" and str(rv.get("op", "")).endswith("WithOverflow"):
            a, b = rv.get("a", {}), rv.get("b", {})
            tr = INT_RANGE.get(str(rv.get("aty", "")))
            if tr and isinstance(a.get("v"), int) and isinstance(b.get("v"), int) and "const_ty" in a and "const_ty" in b:
                op = rv["op"][:-len("WithOverflow")]
                r = {"Add": a["v"] + b["v"], "Sub": a["v"] - b["v"], "Mul": a["v"] * b["v"]}.get(op)
                return r is not None and tr[0] <= r <= tr[1]
    return False


def mir_sites(body):
    """Ground truth: reachable, non-cleanup Assert terminators and panic-capable calls of one MIR body."""
    m = body.get("mir")
    if not m:
        return []
    cfg = mir.Cfg(m)
    reach = cfg.reachable(0)
    out = []
    for i, blk in enumerate(m["blocks"]):
        if i not in reach or blk.get("cleanup"):
            continue
        t = blk["term"]
        if t["k"] == "assert":
            if str(t.get("msg", "")).startswith("Overflow(") and _const_arith_fits(blk, t):
                continue          # arithmetic of two compile-time constants that fits its type (e.g. `Variant as usize`: discriminant + 0)
            out.append({"kind": t["msg"], "ln": t.get("ln"), "mac": t.get("mac"), "term": t, "bb": i})
        elif t["k"] == "call":
            cal = mir.callee(t)
            if is_panic_call(cal) or is_panic_call(t.get("callee", "")):
                out.append({"kind": kind_of_call(cal), "ln": t.get("ln"), "mac": t.get("mac"), "term": t, "bb": i, "callee": cal})
    return out


def hir_sites(root):
    """HIR nodes that can panic, with structural path conditions: index, integer arithmetic, panic-capable calls."""
    def pred(n):
        k = n.get("k")
        if k == "index":
            return True
        if k in ("bin", "assignop") and n.get("op") in ARITH and "callee" not in n:
            t = hir.simp(n["l"]).get("ty", "") if k == "assignop" else n.get("ty", "")
            return t.lstrip("&") in INT_RANGE
        if k in ("bin", "assignop") and "callee" in n and is_panic_call(n.get("resolved") or n.get("callee")):
            return True
        if k == "un" and n.get("op") == "Neg" and n.get("ty") in INT_RANGE:
            return True
        if k == "call" and (is_panic_call(n.get("resolved") or "") or is_panic_call(n.get("callee") or "")):
            return True
        return False
    out = []
    for n, frames in hir.visit_with_conds(root, pred):
        k = n.get("k")
        if k == "index":
            kind = "call:index" if "callee" in n else "BoundsCheck"
        elif k in ("bin", "assignop") and "callee" not in n:
            kind = ARITH[n["op"]]
        elif k in ("bin", "assignop"):
            kind = "call:int-op"
        elif k == "un":
            kind = "OverflowNeg"
        else:
            kind = kind_of_call(n.get("resolved") or n.get("callee"))
        out.append({"kind": kind, "node": n, "frames": frames, "ln": n.get("ln"), "mac": n.get("mac")})
    return out


# ---------------------------------------------------------------------------------------------
# intervals

CALLEE_RANGES = {}    # resolved callee -> result range (per run; filled on demand by Ctx.callee_result_range)
YIELD_RANGE = {}      # iterator type path -> (lo, hi) of every value its next() yields; filled by the rule that proves it (C04 links C13)


_ENUM_RANGES = {}


def enum_discr_range(cx, ty):
    """(min, max) of the discriminants of a fieldless enum of the workspace (from the item facts), else None."""
    facts = getattr(cx, "facts", None)
    if facts is None or "::" not in ty or "<" in ty:
        return None
    key = (id(facts), ty)
    if key not in _ENUM_RANGES:
        _ENUM_RANGES[key] = None
        try:
            for it in facts.items(ty.split("::")[0]):
                if it.get("dk") == "Enum" and it.get("path") == ty:
                    ds = [v.get("discr") for v in it.get("variants", [])]
                    if ds and all(isinstance(d, int) for d in ds) and not any(v.get("fields") for v in it["variants"]):
                        _ENUM_RANGES[key] = (min(ds), max(ds))
        except Exception:
            pass
    return _ENUM_RANGES[key]


class Ctx:
    """Per-function context: let bindings (immutable locals), assignment counts, constants."""

    def __init__(self, body, consts, fn_tables=None, field_inv=None):
        self.body = body
        self.consts = consts            # def path -> int value
        self.fn_tables = fn_tables or {}
        self.field_inv = field_inv or {}   # (owner type path, field) -> (lo, hi): inductive invariants (rule `invariants` in C04)
        self.lets = {}                  # (name, id) -> init expr
        self.assigned = set()           # (name, id) assigned after declaration
        self.order = {}
        self.last = {}
        nodes = list(hir.walk(body["hir"]))
        for i, n in enumerate(nodes):
            self.order[id(n)] = i
        # last pre-order index inside each node's subtree
        def fill(n):
            m = self.order[id(n)]
            for c in hir.children(n):
                m = max(m, fill(c))
            self.last[id(n)] = m
            return m
        import sys
        sys.setrecursionlimit(10000)
        fill(body["hir"])
        self.loops = [n for n in nodes if n.get("k") == "loop"]
        for i, n in enumerate(nodes):
            if n.get("k") == "let" and n["pat"].get("k") == "pbind" and "init" in n:
                self.lets[(n["pat"]["name"], n["pat"].get("id"))] = n["init"]
            if n.get("k") in ("assign", "assignop"):
                l = hir.simp(n["l"])
                if l.get("k") == "local":
                    self.assigned.add((l["name"], l.get("id")))
        self.assign_nodes = [n for n in hir.walk(body["hir"]) if n.get("k") in ("assign", "assignop")]
        # locals bound to what an iterator with a proved yield range hands out (YIELD_RANGE): `for x in it`, `for (i, x) in
        # it.enumerate()`, `if let / while let / match Some(x) = it.next()`
        self.yielded = {}
        if True:
            for n in nodes:
                try:
                    fl = hir.for_loop(n) if n.get("k") == "match" and n.get("src") == "ForLoopDesugar" else None
                except Exception:
                    fl = None
                if fl:
                    self._bind_yield(fl[0], hir.simp(fl[1]).get("ty"))
                    rg = hir.simp(hir.peel(fl[1]))
                    if rg.get("k") == "struct" and hir.last_seg((rg.get("path") or {}).get("path")) == "Range" and fl[0].get("k") == "pbind" \
                            and "sub" not in fl[0]:
                        # `for i in a..b`: i is in [a, b-1]
                        fs = {x["name"]: x["e"] for x in rg.get("fields", [])}
                        lo_ = interval(fs.get("start"), self, {}) if fs.get("start") is not None else None
                        hi_ = interval(fs.get("end"), self, {}) if fs.get("end") is not None else None
                        if lo_ is not None and hi_ is not None:
                            self.yielded[(fl[0]["name"], fl[0].get("id"))] = (lo_[0], hi_[1] - 1)
                pats, init = [], None
                if n.get("k") == "letexpr":
                    pats, init = [n["pat"]], n.get("init")
                elif n.get("k") == "match" and n.get("src") != "ForLoopDesugar":
                    pats, init = [a["pat"] for a in n.get("arms", [])], n.get("scrut")
                if init is not None and hir.is_call(hir.simp(init), "Iterator::next") and hir.simp(init).get("args"):
                    ty = hir.simp(hir.simp(init)["args"][0]).get("ty")
                    for p_ in pats:
                        path = (p_.get("path") or {}).get("path", "") if isinstance(p_.get("path"), dict) else ""
                        if path.endswith("Option::Some"):
                            sub = p_["fields"][0]["p"] if p_.get("k") == "pstruct" and p_.get("fields") else (p_.get("pats") or [None])[0]
                            if sub:
                                self._bind_yield(sub, ty)

    def _bind_yield(self, pat, ty):
        ty = str(ty or "").strip()
        while ty.startswith("&"):
            ty = ty[1:].strip()
            if ty.startswith("mut "):
                ty = ty[4:]
        enum_pref = "core::iter::adapters::enumerate::Enumerate<"
        if ty.startswith(enum_pref) and ty.endswith(">") and pat.get("k") == "ptuple" and len(pat.get("pats", [])) == 2:
            return self._bind_yield(pat["pats"][1], ty[len(enum_pref):-1])
        if ty in YIELD_RANGE and pat.get("k") == "pbind" and "sub" not in pat:
            self.yielded[(pat["name"], pat.get("id"))] = YIELD_RANGE[ty]

    def frames_of(self, node):
        """Structural path conditions at a node of this body."""
        got = hir.visit_with_conds(self.body["hir"], lambda x: x is node)
        return got[0][1] if got else []

    def mutable_range(self, key, depth=0):
        """Range of a mutable integer local at every point: the join of its initialiser and of every value assigned to it, each taken
        at its assignment (with the path conditions that hold there).  `x += e` / `x = x + e` with e >= 0 keeps the lower bound
        (no wrap: the overflow site is decided separately) and is bounded above by the path conditions at the store."""
        cache = self.__dict__.setdefault("_mut_ranges", {})
        if key in cache:
            return cache[key]
        cache[key] = None           # recursion guard: a cycle between locals gives no information
        if depth > 12:
            return None
        init = self.lets.get(key)
        base = interval(init, self, {}, depth + 1, at=init if isinstance(init, dict) else None) if init is not None else None
        if base is None:
            return None
        lo, hi = base
        tr = None
        for a in self.assign_nodes:
            l = hir.simp(a["l"])
            if not (l.get("k") == "local" and (l["name"], l.get("id")) == key):
                continue
            tr = self.type_range(l.get("ty")) or tr
            frames = self.frames_of(a)
            ref = Refinements(frames, self, a)
            rhs = hir.simp(a["r"])
            self_plus = None
            if a.get("k") == "assignop" and a.get("op") == "AddAssign":
                self_plus = rhs
            elif a.get("k") == "assign" and rhs.get("k") == "bin" and rhs.get("op") == "Add" and "callee" not in rhs and \
                    hir.simp(rhs["l"]).get("k") == "local" and (hir.simp(rhs["l"])["name"], hir.simp(rhs["l"]).get("id")) == key:
                self_plus = rhs["r"]
            if self_plus is not None:
                inc = interval(self_plus, self, ref, depth + 1, at=a)
                if inc is None or inc[0] < 0:
                    return None
                # upper bound: what the path conditions say about x at the store, plus the increment
                cur = ref.get(hir.place_str(l), a) if hasattr(ref, "get") else None
                if cur is None or tr is None:
                    hi = max(hi, tr[1] if tr else hi)
                else:
                    hi = max(hi, min(cur[1], tr[1]) + inc[1])
                continue
            if a.get("k") != "assign":
                return None
            v = interval(rhs, self, ref, depth + 1, at=a)
            if v is None:
                return None
            lo, hi = min(lo, v[0]), max(hi, v[1])
        cache[key] = (lo, hi)
        return cache[key]

    def callee_result_range(self, call, depth=0):
        """Range of the value a same-crate function returns: the join over its tail expression and `return`s, computed in the callee's
        own context (nothing assumed about the arguments)."""
        facts, crate = getattr(self, "facts", None), getattr(self, "crate", None)
        cal = call.get("resolved") or call.get("callee") or ""
        if facts is None or not cal.startswith(str(crate) + "::") or depth > 6:
            return None
        cache = CALLEE_RANGES
        if cal in cache:
            return cache[cal]
        cache[cal] = None
        try:
            bs = facts.crate(crate)["_bodies"].get(cal, []) or [h for h in facts.crate(crate).get("helper_bodies", []) if h["path"] == cal]
        except Exception:
            return None
        if len(bs) != 1 or "hir" not in bs[0] or bs[0].get("kind") not in ("Fn", "AssocFn"):
            return None
        b = bs[0]
        cx2 = Ctx(b, self.consts, self.fn_tables, self.field_inv)
        cx2.facts, cx2.crate = facts, crate
        outs = []
        body = hir.simp(b["hir"])
        tail = body.get("expr") if body.get("k") == "block" else body
        if tail is not None:
            outs.append(tail)
        for n in hir.walk(b["hir"]):
            if n.get("k") == "ret" and "e" in n:
                outs.append(n["e"])
        if not outs:
            return None
        lo = hi = None
        for o in outs:
            o = hir.simp(o)
            fr = cx2.frames_of(o) if isinstance(o, dict) else []
            v = interval(o, cx2, Refinements(fr, cx2, o), depth + 1, at=o)
            if v is None:
                return None
            lo, hi = (v[0], v[1]) if lo is None else (min(lo, v[0]), max(hi, v[1]))
        cache[cal] = (lo, hi)
        return cache[cal]

    def inside(self, node, container):
        return self.order[id(container)] <= self.order[id(node)] <= self.last[id(container)]

    def init_still_holds(self, key, pos_node):
        """A mutable local still holds its initialiser at `pos_node` if every assignment to it comes later in pre-order and no
        loop contains both an assignment to it and the position."""
        pos = self.order.get(id(pos_node), -1)
        for a in self.assign_nodes:
            l = hir.simp(a["l"])
            if l.get("k") == "local" and (l["name"], l.get("id")) == key:
                if self.order[id(a)] <= pos:
                    return False
                for lp in self.loops:
                    if self.inside(a, lp) and self.order[id(lp)] <= pos <= self.last[id(lp)]:
                        return False
        return True

    def type_range(self, ty):
        ty = (ty or "").lstrip("&").replace("mut ", "")
        return INT_RANGE.get(ty)


def clip(iv, ty_range):
    if iv is None:
        return ty_range
    if ty_range is None:
        return iv
    lo, hi = iv
    if lo >= ty_range[0] and hi <= ty_range[1]:
        return iv
    return ty_range


def array_len(ty, consts):
    """`[T; N]` / `&[T; N]` → N (literal or a named const)"""
    ty = (ty or "").lstrip("&").replace("mut ", "").strip()
    if ty.startswith("[") and ty.endswith("]") and ";" in ty:
        n = ty.rsplit(";", 1)[1].rstrip("]").strip()
        if n.isdigit():
            return int(n)
        for k, v in consts.items():
            if k.split("::")[-1] == n:
                return v
    return None


def owner_type(e):
    """Type path of the value a field is read from (`&mut Parser<C>` -> `anstyle_parse::Parser`)."""
    t = (hir.simp(e).get("ty") or "").lstrip("&").replace("mut ", "").strip()
    return t.split("<", 1)[0]


def interval(e, cx, refine, depth=0, at=None):
    """Sound interval of an integer expression, or None when unknown (see _interval); on top of it: a field with an inductive
    invariant is inside the invariant at every program point, and values excluded by `!=` tests / earlier match arms trim the ends."""
    r = _interval(e, cx, refine, depth, at)
    e1 = hir.simp(e)
    if not isinstance(e1, dict):
        return r
    if e1.get("k") == "field" and cx.field_inv:
        inv = cx.field_inv.get((owner_type(e1["e"]), e1["name"]))
        if inv is not None:
            r = inv if r is None else (max(r[0], inv[0]), min(r[1], inv[1]))
    if r is not None and hasattr(refine, "excluded") and e1.get("k") in ("local", "field", "un"):
        ps = hir.place_str(e1)
        ex = refine.excluded(ps, at if at is not None else e1) if ps else set()
        if ex:
            lo, hi = r
            while lo in ex and lo <= hi:
                lo += 1
            while hi in ex and hi >= lo:
                hi -= 1
            r = (lo, hi)
    return r


def _interval(e, cx, refine, depth=0, at=None):
    """Sound interval of an integer expression, or None when unknown.  `refine` is a Refinements object (or {}); `at` is the
    node at whose program point the expression is evaluated (defaults to the expression itself)."""
    if depth > 40:
        return None
    if at is None:
        at = e if isinstance(e, dict) else None
    e0 = e
    e = hir.simp(e)
    if not isinstance(e, dict):
        return None
    k = e.get("k")
    tr = cx.type_range(e.get("ty"))
    ps = hir.place_str(e) if k in ("local", "field", "un") else None
    r = refine.get(ps, at) if (ps and hasattr(refine, "get") and not isinstance(refine, dict)) else None
    if r is not None:
        base = tr
        if k == "local" and (e["name"], e.get("id")) in cx.lets and (e["name"], e.get("id")) not in cx.assigned:
            base = interval(cx.lets[(e["name"], e.get("id"))], cx, {}, depth + 1) or tr
        elif k == "local" and (e["name"], e.get("id")) in cx.lets and tr is not None:
            mr = cx.mutable_range((e["name"], e.get("id")), depth)
            if mr is not None:
                base = (max(tr[0], mr[0]), min(tr[1], mr[1]))
        if base is None:
            return r
        return (max(base[0], r[0]), min(base[1], r[1]))
    if k == "lit" and e.get("t") == "int":
        return (e["v"], e["v"])
    if k == "def":
        v = cx.consts.get(e["path"])
        return (v, v) if isinstance(v, int) else tr
    if k == "local":
        key = (e["name"], e.get("id"))
        if key in getattr(cx, "yielded", {}) and key not in cx.assigned:
            return clip(cx.yielded[key], tr)
        if key in cx.lets and key not in cx.assigned:
            init = cx.lets[key]
            # the initialiser is evaluated at the point of the `let`, not at the use
            return clip(interval(init, cx, refine, depth + 1, at=init if isinstance(init, dict) else at), tr)
        if key in cx.lets and at is not None and cx.init_still_holds(key, at):
            init = cx.lets[key]
            return clip(interval(init, cx, refine, depth + 1, at=init if isinstance(init, dict) else at), tr)
        if key in cx.lets and key in cx.assigned and tr is not None:
            r_ = cx.mutable_range(key, depth)
            if r_ is not None:
                return clip(r_, tr)
        return tr
    if k == "un" and e.get("op") == "Deref":
        return clip(interval(e["e"], cx, refine, depth + 1, at), tr) if tr else interval(e["e"], cx, refine, depth + 1, at)
    if k == "ref":
        return interval(e["e"], cx, refine, depth + 1, at)
    if k == "cast":
        inner = interval(e["e"], cx, refine, depth + 1, at)
        src_ty = hir.simp(e["e"]).get("ty", "")
        if inner is None and src_ty.startswith(("anstyle_parse::state::definitions::State", "anstyle_parse::state::definitions::Action")):
            inner = (0, 15)   # fieldless 16-variant enums (checked in C02 encoding)
        if inner is None and src_ty == "bool":
            inner = (0, 1)
        if inner is None:
            inner = enum_discr_range(cx, src_ty.lstrip("&"))
        return clip(inner, tr)
    if k == "bin" and "callee" not in e:
        a, b = interval(e["l"], cx, refine, depth + 1, at), interval(e["r"], cx, refine, depth + 1, at)
        op = e["op"]
        if a is None or b is None:
            if op == "Rem" and b is not None and b[0] == b[1] and b[0] > 0:
                return (0, b[0] - 1)
            if op == "BitAnd" and b is not None and b[0] == b[1] and b[0] >= 0:
                return (0, b[0])
            return tr
        if op == "Add":
            return (a[0] + b[0], a[1] + b[1])
        if op == "Sub":
            return (a[0] - b[1], a[1] - b[0])
        if op == "Mul":
            ps_ = [a[0] * b[0], a[0] * b[1], a[1] * b[0], a[1] * b[1]]
            return (min(ps_), max(ps_))
        if op == "Div" and b[0] > 0 and a[0] >= 0:
            return (a[0] // b[1], a[1] // b[0])
        if op == "Rem" and b[0] > 0 and a[0] >= 0:
            return (0, min(a[1], b[1] - 1))
        if op == "Shl" and 0 <= b[0] <= b[1] < 128 and a[0] >= 0:
            r_ = (a[0] << b[0], a[1] << b[1])
            if tr is not None and r_[1] > tr[1]:
                return tr              # bits shifted out are dropped silently: only the type's range is known
            return r_
        if op == "Shr" and 0 <= b[0] <= b[1] < 128 and a[0] >= 0:
            return (a[0] >> b[1], a[1] >> b[0])
        if op == "BitAnd" and a[0] >= 0 and b[0] >= 0:
            return (0, min(a[1], b[1]))
        if op == "BitOr" and a[0] >= 0 and b[0] >= 0:
            return (0, (1 << max(a[1], b[1]).bit_length()) - 1)
        return tr
    if k == "bin" and "callee" in e and is_panic_call(e.get("resolved") or e.get("callee")) and e["op"] in ("Add", "Sub"):
        a, b = interval(e["l"], cx, refine, depth + 1, at), interval(e["r"], cx, refine, depth + 1, at)
        if a is None or b is None:
            return tr
        return (a[0] + b[0], a[1] + b[1]) if e["op"] == "Add" else (a[0] - b[1], a[1] - b[0])
    if k == "call":
        cal = hir.callee(e)
        if cal.endswith("::len") and e["args"]:
            n = array_len(hir.simp(e["args"][0]).get("ty") or e.get("recv_adj_ty") or e.get("recv_ty"), cx.consts)
            if n is None:
                n = array_len(e.get("recv_ty"), cx.consts)
            if n is not None:
                return (n, n)
            return (0, 2 ** 63 - 1)
        rr = cx.callee_result_range(e, depth) if tr is not None else None
        if rr is not None:
            return clip(rr, tr)
        return tr
    if k == "block" and "expr" in e and not e.get("stmts"):
        return interval(e["expr"], cx, refine, depth + 1, at)
    return tr


def _peel_widening(e):
    """`x as usize` with x an unsigned integer no wider than the target denotes the same number as x."""
    e = hir.simp(e)
    while isinstance(e, dict) and e.get("k") == "cast":
        inner = hir.simp(e["e"])
        ti, to = (inner.get("ty") or "").lstrip("&"), (e.get("ty") or "")
        if ti in BITS and to in BITS and ti.startswith("u") and BITS[ti] <= BITS[to]:
            e = inner
        else:
            break
    return e


class Refinements:
    """Constraints `place ∈ [lo, hi]` implied by structural path conditions; validity is decided per program point: a
    constraint is dropped when the place is (re)assigned on a path between the condition and that point."""

    def __init__(self, frames, cx, site_node):
        self.cx = cx
        self.frames = frames
        self.site = site_node
        self.cands = []   # (place, lo, hi, guard_pos, frame index)
        self.excl = []    # (place, value, guard_pos, frame index)
        self._collect()
        self._collect_exclusions()

    def _off_path(self, a, upto_fi=None):
        """Is assignment `a` inside a sibling arm / the other branch of a frame enclosing the site?"""
        cx = self.cx
        for f in self.frames:
            if f.get("kind") == "arm":
                for arm in f["match"]["arms"]:
                    if arm["pat"] is f["pat"]:
                        continue
                    if cx.inside(a, arm["body"]) or ("guard" in arm and cx.inside(a, arm["guard"])):
                        return True
            if f.get("kind") == "if" and "node" in f:
                other = f["node"].get("e") if f.get("branch") == "t" else f["node"].get("t")
                if isinstance(other, dict) and cx.inside(a, other):
                    return True
        return False

    def _valid(self, place, guard_pos, fi, pos, at_node=None):
        cx = self.cx
        loops_after = [f["node"] for f in self.frames[fi + 1:] if f.get("kind") == "loop"]
        for a in cx.assign_nodes:
            if hir.place_str(a["l"]) != place:
                continue
            if at_node is not None and id(at_node) in cx.order and cx.inside(at_node, a):
                continue   # the assignment being analysed itself: its operands are read before it writes
            p = cx.order.get(id(a), -1)
            if guard_pos < p < pos and not self._off_path(a):
                return False
            for lp in loops_after:
                if cx.inside(a, lp) and cx.order[id(lp)] <= pos <= cx.last[id(lp)] and not self._off_path(a):
                    # a `while` guard is re-tested each iteration, so assignments inside its own loop are fine when the guard
                    # is that loop's condition (guard inside the loop); here the guard is outside the loop
                    return False
        return True

    def get(self, place, at_node):
        pos = self.cx.order.get(id(at_node), self.cx.order.get(id(self.site), 10 ** 9)) if at_node is not None else 10 ** 9
        lo, hi = -(10 ** 40), 10 ** 40
        found = False
        names = [place] + (self._copies_of(place, pos, at_node) if "." in (place or "") else [])
        for nm in names:
            for (pl, l, h, gp, fi) in self.cands:
                if pl == nm and gp <= pos and self._valid(nm, gp, fi, pos, at_node):
                    lo, hi = max(lo, l), min(hi, h)
                    found = True
        return (lo, hi) if found else None

    def __contains__(self, place):
        return self.get(place, self.site) is not None

    def _copies_of(self, place, pos, at_node):
        """Immutable locals bound to a read of `place` (`let i = self.n;`) while `place` has not been written since: what a test
        says about the copy it says about the place."""
        cx = self.cx
        out = []
        for (name, lid), init in cx.lets.items():
            if (name, lid) in cx.assigned or not isinstance(init, dict):
                continue
            iw = _peel_widening(init)
            if iw.get("k") in ("field", "un") and hir.place_str(iw) == place:
                lp = cx.order.get(id(init), -1)
                if lp <= pos and self._valid(place, lp, -1, pos, at_node):
                    out.append(name)
        return out

    def excluded(self, place, at_node):
        pos = self.cx.order.get(id(at_node), self.cx.order.get(id(self.site), 10 ** 9)) if at_node is not None else 10 ** 9
        names = [place] + self._copies_of(place, pos, at_node)
        out = set()
        for nm in names:
            out |= {v for (pl, v, gp, fi) in self.excl if pl == nm and gp <= pos and self._valid(nm, gp, fi, pos, at_node)}
        return out

    def _collect_exclusions(self):
        cx = self.cx

        def ints_of(p):
            try:
                if p.get("k") in ("lit", "prange", "por"):
                    return hir.pat_ints(p)
                if p.get("k") == "ppath" and isinstance(cx.consts.get(p.get("path")), int):
                    return {cx.consts[p["path"]]}
            except Unrecognised:
                pass
            return None
        for fi, f in enumerate(self.frames):
            if f.get("kind") == "if":
                c = hir.simp(f["expr"])
                if c.get("k") == "bin" and c.get("op") in ("Eq", "Ne") and "callee" not in c and (c["op"] == "Ne") == bool(f["val"]):
                    gp = cx.last.get(id(c), cx.order.get(id(c), 0))
                    for a, b in ((c["l"], c["r"]), (c["r"], c["l"])):
                        aw = _peel_widening(a)
                        pl = hir.place_str(aw) if aw.get("k") in ("local", "field", "un") else None
                        iv = _interval(b, cx, {}, at=c)
                        if pl and iv is not None and iv[0] == iv[1]:
                            self.excl.append((pl, iv[0], gp, fi))
            elif f.get("kind") == "arm" and f["pat"].get("k") in ("pwild", "pbind") and not f.get("guard"):
                sc = _peel_widening(f["scrut"])
                pl = hir.place_str(sc) if sc.get("k") in ("local", "field", "un") else None
                gp = cx.last.get(id(hir.simp(f["scrut"])), cx.order.get(id(hir.simp(f["scrut"])), 0))
                if pl:
                    for q in f.get("prior", []):
                        for v in ints_of(q) or ():
                            self.excl.append((pl, v, gp, fi))
                    if f["pat"].get("k") == "pbind" and f["pat"].get("name"):
                        for q in f.get("prior", []):      # the binding itself carries the same exclusions
                            for v in ints_of(q) or ():
                                self.excl.append((f["pat"]["name"], v, gp, fi))
            elif f.get("kind") == "not-arms":
                sc = _peel_widening(f["scrut"])
                pl = hir.place_str(sc) if sc.get("k") in ("local", "field", "un") else None
                gp = cx.last.get(id(f["match"]), cx.order.get(id(f["match"]), 0))
                if pl:
                    for q in f.get("pats", []):
                        for v in ints_of(q) or ():
                            self.excl.append((pl, v, gp, fi))

    def _add(self, place, lo, hi, gp, fi):
        if place is not None:
            self.cands.append((place, lo, hi, gp, fi))

    def _collect(self):
        cx = self.cx
        BIG = 10 ** 40
        for fi, f in enumerate(self.frames):
            if f.get("kind") == "if":
                c = hir.simp(f["expr"])
                gp = cx.last.get(id(c), cx.order.get(id(c), 0))
                if c.get("k") == "bin" and c.get("op") in ("And", "Or") and "callee" not in c and (c["op"] == "Or") == bool(f["val"]):
                    # `l != 3 && l != 6` found false / `l == 3 || l == 6` found true: the place is one of the constants (their hull)
                    want_op = "Eq" if c["op"] == "Or" else "Ne"
                    parts = hir.split_or(c) if c["op"] == "Or" else hir.split_and(c)
                    place, vals = None, []
                    for q in parts:
                        q = hir.simp(q)
                        if not (q.get("k") == "bin" and q.get("op") == want_op and "callee" not in q):
                            place = None
                            break
                        lw = _peel_widening(q["l"])
                        lp_ = hir.place_str(lw) if lw.get("k") in ("local", "field", "un") else None
                        ri_ = interval(q["r"], cx, {}, at=c)
                        if lp_ is None or ri_ is None or ri_[0] != ri_[1] or (place is not None and lp_ != place):
                            place = None
                            break
                        place = lp_
                        vals.append(ri_[0])
                    if place is not None and vals:
                        self._add(place, min(vals), max(vals), gp, fi)
                if c.get("k") == "bin" and c.get("op") in ("Lt", "Le", "Gt", "Ge", "Eq", "Ne") and "callee" not in c:
                    op = c["op"]
                    if not f["val"]:
                        op = {"Lt": "Ge", "Le": "Gt", "Gt": "Le", "Ge": "Lt", "Eq": "Ne", "Ne": "Eq"}[op]
                    l, r = c["l"], c["r"]
                    li, ri = interval(l, cx, {}, at=c), interval(r, cx, {}, at=c)
                    lw, rw = _peel_widening(l), _peel_widening(r)
                    lp = hir.place_str(lw) if lw.get("k") in ("local", "field", "un") else None
                    rp = hir.place_str(rw) if rw.get("k") in ("local", "field", "un") else None
                    if ri is not None and lp:
                        if op == "Lt":
                            self._add(lp, -BIG, ri[1] - 1, gp, fi)
                        elif op == "Le":
                            self._add(lp, -BIG, ri[1], gp, fi)
                        elif op == "Gt":
                            self._add(lp, ri[0] + 1, BIG, gp, fi)
                        elif op == "Ge":
                            self._add(lp, ri[0], BIG, gp, fi)
                        elif op == "Eq":
                            self._add(lp, ri[0], ri[1], gp, fi)
                    if li is not None and rp:
                        if op == "Lt":
                            self._add(rp, li[0] + 1, BIG, gp, fi)
                        elif op == "Le":
                            self._add(rp, li[0], BIG, gp, fi)
                        elif op == "Gt":
                            self._add(rp, -BIG, li[1] - 1, gp, fi)
                        elif op == "Ge":
                            self._add(rp, -BIG, li[1], gp, fi)
                        elif op == "Eq":
                            self._add(rp, li[0], li[1], gp, fi)
            elif f.get("kind") == "arm":
                sc = hir.simp(f["scrut"])
                gp = cx.last.get(id(sc), cx.order.get(id(sc), 0))
                alts = hir.pat_alternatives(f["pat"])
                # checked access: in the `Some` arm of `a.get(i)` / `a.get_mut(i)` on an array of known length N, i < N; in `None`, i >= N
                if sc.get("k") == "call" and len(sc.get("args", [])) == 2 and \
                        str(sc.get("resolved") or sc.get("callee") or "").split("::")[-1] in ("get", "get_mut") and \
                        str(sc.get("resolved") or sc.get("callee") or "").startswith("core::slice::"):
                    recv = hir.peel(hir.simp(sc["args"][0]))
                    n_ = array_len(str(recv.get("ty", "")).lstrip("&"), cx.consts) or array_len(sc.get("recv_ty"), cx.consts)
                    iw = _peel_widening(sc["args"][1])
                    ip = hir.place_str(iw) if iw.get("k") in ("local", "field", "un") else None
                    seg = hir.last_seg(hir.pat_path(alts[0])) if len(alts) == 1 else None
                    if n_ is not None and ip and seg in ("Some", "None") and not f.get("guard"):
                        if seg == "Some":
                            self._add(ip, -BIG, n_ - 1, gp, fi)
                        else:
                            self._add(ip, n_, BIG, gp, fi)
                comps = [(sc, f["pat"])]
                if sc.get("k") == "tuple":
                    comps = []
                    if len(alts) == 1 and alts[0].get("k") == "ptuple" and len(alts[0]["pats"]) == len(sc["es"]):
                        comps = list(zip(sc["es"], alts[0]["pats"]))
                for ex, pt in comps:
                    ex = hir.simp(ex)
                    place = hir.place_str(ex) if ex.get("k") in ("local", "field", "un") else None
                    if place is None:
                        continue
                    try:
                        ints = hir.pat_ints(pt) if pt.get("k") in ("lit", "prange", "por") else None
                    except Unrecognised:
                        ints = None
                    if ints:
                        self._add(place, min(ints), max(ints), gp, fi)
                    elif pt.get("k") == "ppath":
                        v = cx.consts.get(pt.get("path"))
                        if isinstance(v, int):
                            self._add(place, v, v, gp, fi)


            elif f.get("kind") == "in-arms" and f.get("all_unguarded"):
                # control continues after the match only through its non-diverging arms: the scrutinee matched one of them
                sc = hir.simp(f["scrut"])
                gp = cx.last.get(id(f["match"]), cx.order.get(id(f["match"]), 0))
                place = hir.place_str(sc) if sc.get("k") in ("local", "field", "un") else None
                vals = set()
                ok = place is not None
                for pt in f["pats"]:
                    try:
                        ints = hir.pat_ints(pt) if pt.get("k") in ("lit", "prange", "por") else None
                    except Unrecognised:
                        ints = None
                    if not ints:
                        ok = False
                        break
                    vals |= ints
                if ok and vals:
                    self._add(place, min(vals), max(vals), gp, fi)


def refinements(frames, cx, site_node):
    return Refinements(frames, cx, site_node)


def describe(site, cx):
    """Stable description of a site for keys (no line numbers)."""
    n = site["node"]
    txt = hirpp.expr(n)
    txt = txt.replace("anstyle_parse::state::definitions::", "").replace("core::ops::range::", "")
    txt = txt.replace("[RangeTo{end: ", "[Range{start: 0, end: ")        # `a[..e]` and `a[0..e]` are one site
    return txt[:110].replace(" ", "_")
