"""Fact extraction: run the rustc_private driver over /repo (and the harness crate) and cache the JSON.

Nothing here executes code of /repo: `cargo check` type-checks it with the driver as RUSTC_WRAPPER.
"""
import fcntl
import hashlib
import json
import os
import shutil
import subprocess
import sys
import time

VERIF = os.path.dirname(os.path.dirname(os.path.abspath(__file__)))
CACHE = os.path.join(VERIF, ".cache")
DRIVER = os.path.join(VERIF, "driver", "target", "release", "verif-driver")

WORKSPACE_CRATES = [
    "anstream", "anstyle", "anstyle_ansi_term", "anstyle_crossterm", "anstyle_git", "anstyle_lossy",
    "anstyle_ls", "anstyle_owo_colors", "anstyle_parse", "anstyle_query", "anstyle_roff", "anstyle_svg",
    "anstyle_syntect", "anstyle_termcolor", "anstyle_wincon", "anstyle_yansi", "colorchoice",
    "colorchoice_clap",
]

# extra configurations (thorough tier): name -> (crate dir, cargo args, crate whose facts are expected)
EXTRA_CONFIGS = {
    "parse-none": ("crates/anstyle-parse", ["--lib", "--no-default-features"], "anstyle_parse"),
    "parse-core": ("crates/anstyle-parse", ["--lib", "--no-default-features", "--features", "core"], "anstyle_parse"),
    "parse-core-utf8": ("crates/anstyle-parse", ["--lib", "--no-default-features", "--features", "core,utf8"], "anstyle_parse"),
    "anstyle-nostd": ("crates/anstyle", ["--lib", "--no-default-features"], "anstyle"),
    "anstream-none": ("crates/anstream", ["--lib", "--no-default-features"], "anstream"),
    "anstream-auto": ("crates/anstream", ["--lib", "--no-default-features", "--features", "auto"], "anstream"),
}


class AnalysisError(Exception):
    pass


def repo_root():
    return os.path.abspath(os.environ.get("VERIF_REPO", "/repo"))


def _hash_tree(h, root, rel):
    p = os.path.join(root, rel)
    if os.path.isfile(p):
        h.update(rel.encode())
        with open(p, "rb") as f:
            h.update(hashlib.sha256(f.read()).digest())
        return
    for dirpath, dirnames, filenames in os.walk(p):
        dirnames[:] = sorted(d for d in dirnames if d not in ("target", ".git"))
        for fn in sorted(filenames):
            fp = os.path.join(dirpath, fn)
            h.update(os.path.relpath(fp, root).encode())
            try:
                with open(fp, "rb") as f:
                    h.update(hashlib.sha256(f.read()).digest())
            except OSError:
                pass


def tree_hash(repo):
    h = hashlib.sha256()
    h.update(repo.encode())
    for rel in ("crates", "Cargo.toml", "Cargo.lock"):
        _hash_tree(h, repo, rel)
    _hash_tree(h, VERIF, "harness/src")
    _hash_tree(h, VERIF, "harness/Cargo.toml.in")
    if os.path.exists(DRIVER):
        with open(DRIVER, "rb") as f:
            h.update(hashlib.sha256(f.read()).digest())
    return h.hexdigest()[:20]


def _sysroot_lib():
    out = subprocess.run(["rustc", "+nightly", "--print", "sysroot"], capture_output=True, text=True, check=True)
    return os.path.join(out.stdout.strip(), "lib")


def _env(facts_dir, roots, target):
    env = dict(os.environ)
    env["LD_LIBRARY_PATH"] = _sysroot_lib() + ":" + env.get("LD_LIBRARY_PATH", "")
    env["RUSTFLAGS"] = "-Zmir-opt-level=0 -Awarnings"
    env["RUSTC_WRAPPER"] = DRIVER
    env.pop("RUSTC_WORKSPACE_WRAPPER", None)
    env["VERIF_FACTS_DIR"] = facts_dir
    env["VERIF_ROOTS"] = ":".join(roots)
    env["CARGO_TARGET_DIR"] = target
    env["CARGO_NET_OFFLINE"] = "true"
    env["CARGO_TERM_COLOR"] = "never"
    # no incremental state: every scratch copy lives at a fresh path, so its state is never reused and only fills the disk
    env["CARGO_INCREMENTAL"] = "0"
    env.pop("VERIF_FACTS_SUFFIX", None)
    return env


WORKSPACE_PREFIXES = ("anstyle", "libanstyle", "anstream", "libanstream", "colorchoice", "libcolorchoice", "verif_harness", "libverif_harness")


def gc_target(max_age_s=3600, target=None):
    """Drop the workspace members' artefacts older than `max_age_s` from the shared target directory (each scratch copy of the
    repository compiles them under a new hash; third-party dependencies are shared and stay). Called by tools/regress.py when a
    run is over; the next extraction rebuilds what it needs."""
    import time
    target = target or os.environ.get("VERIF_TARGET_DIR", os.path.join(CACHE, "target"))
    now, n = time.time(), 0
    for sub in ("deps", ".fingerprint", "incremental"):
        d = os.path.join(target, "debug", sub)
        if not os.path.isdir(d):
            continue
        for name in os.listdir(d):
            if not name.startswith(WORKSPACE_PREFIXES):
                continue
            pth = os.path.join(d, name)
            try:
                if now - os.path.getmtime(pth) > max_age_s:
                    shutil.rmtree(pth) if os.path.isdir(pth) else os.remove(pth)
                    n += 1
            except OSError:
                pass
    return n


def _drop_fingerprints(target):
    """cargo would otherwise consider members fresh, skip the driver and replay old output."""
    fp = os.path.join(target, "debug", ".fingerprint")
    if not os.path.isdir(fp):
        return
    for d in os.listdir(fp):
        if d.startswith(("anstyle", "anstream", "colorchoice", "verif-harness", "verif_harness")):
            shutil.rmtree(os.path.join(fp, d), ignore_errors=True)


def _cargo(args, cwd, env, what):
    p = subprocess.run(["cargo", "+nightly", "check", "--offline"] + args, cwd=cwd, env=env,
                       capture_output=True, text=True)
    if p.returncode != 0:
        tail = "\n".join(l for l in p.stderr.splitlines() if not l.lstrip().startswith("process didn't exit"))
        raise AnalysisError(f"cargo check failed for {what} (the tree does not compile or the driver crashed):\n"
                            + tail[-6000:])
    return p


def _prepare_harness(repo, hdir):
    src = os.path.join(VERIF, "harness")
    if os.path.isdir(hdir):
        shutil.rmtree(hdir)
    os.makedirs(hdir)
    shutil.copytree(os.path.join(src, "src"), os.path.join(hdir, "src"))
    with open(os.path.join(src, "Cargo.toml.in")) as f:
        toml = f.read().replace("@REPO@", repo)
    with open(os.path.join(hdir, "Cargo.toml"), "w") as f:
        f.write(toml)
    # mount files: the harness includes /repo sources by #[path]; the path is substituted in lib.rs
    for dirpath, _, files in os.walk(os.path.join(hdir, "src")):
        for fn in files:
            fp = os.path.join(dirpath, fn)
            with open(fp) as f:
                s = f.read()
            if "@REPO@" in s:
                with open(fp, "w") as f:
                    f.write(s.replace("@REPO@", repo))
    shutil.copy(os.path.join(repo, "Cargo.lock"), os.path.join(hdir, "Cargo.lock"))


def ensure_facts(configs=("default",), log=sys.stderr):
    """Returns {config: facts_dir}. Extracts what is missing for the current tree hash."""
    repo = repo_root()
    if not os.path.exists(DRIVER):
        raise AnalysisError(f"driver not built: {DRIVER} (run MANIFEST.setup_cmd)")
    os.makedirs(CACHE, exist_ok=True)
    result = {}
    with open(os.path.join(CACHE, "lock"), "w") as lockf:
        fcntl.flock(lockf, fcntl.LOCK_EX)
        th = tree_hash(repo)
        base = os.path.join(CACHE, "facts", th)
        target = os.environ.get("VERIF_TARGET_DIR", os.path.join(CACHE, "target"))
        for cfg in configs:
            fdir = os.path.join(base, cfg)
            done = os.path.join(fdir, ".done")
            result[cfg] = fdir
            if os.path.exists(done):
                continue
            t0 = time.time()
            if os.path.isdir(fdir):
                shutil.rmtree(fdir)
            os.makedirs(fdir)
            _drop_fingerprints(target)
            if cfg == "default":
                env = _env(fdir, [repo], target)
                _cargo(["--workspace"], repo, env, "workspace (default features)")
                expected = list(WORKSPACE_CRATES)
                hdir = os.path.join(CACHE, "harness", th)
                _prepare_harness(repo, hdir)
                env = _env(fdir, [hdir], target)
                _cargo([], hdir, env, "harness crate (mounts anstream/src/wincon.rs)")
                expected.append("verif_harness")
                shutil.rmtree(hdir, ignore_errors=True)
            else:
                cdir, args, crate = EXTRA_CONFIGS[cfg]
                env = _env(fdir, [os.path.join(repo, cdir)], target)
                _cargo(args, os.path.join(repo, cdir), env, f"configuration {cfg}")
                expected = [crate]
            missing = [c for c in expected if not os.path.exists(os.path.join(fdir, c + ".json"))]
            if missing:
                raise AnalysisError(f"driver wrote no facts for {missing} in configuration {cfg}")
            with open(done, "w") as f:
                f.write(json.dumps({"wall_s": round(time.time() - t0, 2), "repo": repo}))
            print(f"[extract] {cfg}: {len(expected)} crates in {time.time() - t0:.1f}s", file=log)
        _prune(os.path.join(CACHE, "facts"), keep=th)
    return result


def _prune(facts_root, keep, max_keep=None):
    max_keep = int(os.environ.get("VERIF_FACTS_KEEP", "6")) if max_keep is None else max_keep
    try:
        ds = sorted((d for d in os.listdir(facts_root) if d != keep),
                    key=lambda d: os.path.getmtime(os.path.join(facts_root, d)))
    except OSError:
        return
    now = time.time()
    for d in ds[:-max_keep] if len(ds) > max_keep else []:
        # never remove facts another (parallel) run may still be reading: only directories untouched for half an hour
        try:
            if now - os.path.getmtime(os.path.join(facts_root, d)) < 1800:
                continue
        except OSError:
            continue
        shutil.rmtree(os.path.join(facts_root, d), ignore_errors=True)


def load(fdir, crate):
    with open(os.path.join(fdir, crate + ".json")) as f:
        return json.load(f)
