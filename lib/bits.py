"""Bit-vector terms built from symbols, constants and the bitwise operators: two such terms are equal for every input exactly
when they agree on the assignments that give each symbol all-zeros or all-ones — every output bit depends only on the bits of
the same position, so those 2^k assignments exercise every per-bit input combination at every position (constants included).

Terms are the abstract evaluator's values: ("int", n), ("sym", name), ("bin", BitAnd|BitOr|BitXor, l, r), ("not", t)."""
import itertools

from core import Unrecognised

OPS = {"BitAnd": lambda a, b: a & b, "BitOr": lambda a, b: a | b, "BitXor": lambda a, b: a ^ b}


def symbols(t, out=None):
    out = set() if out is None else out
    if t[0] == "sym":
        out.add(t[1])
    elif t[0] == "bin":
        symbols(t[2], out)
        symbols(t[3], out)
    elif t[0] == "not":
        symbols(t[1], out)
    return out


def value(t, asg, mask):
    if t[0] == "int":
        return t[1] & mask
    if t[0] == "sym":
        if t[1] not in asg:
            raise Unrecognised(f"free symbol {t[1]} in a bit-vector term")
        return asg[t[1]]
    if t[0] == "bin" and t[1] in OPS:
        return OPS[t[1]](value(t[2], asg, mask), value(t[3], asg, mask)) & mask
    if t[0] == "not":
        return ~value(t[1], asg, mask) & mask
    raise Unrecognised(f"term {str(t)[:80]} is not built from bitwise operators only")


def table(t, syms, width=16):
    """The term as a function table over the all-zeros / all-ones assignments of `syms` (in that order)."""
    mask = (1 << width) - 1
    return {combo: value(t, dict(zip(syms, combo)), mask) for combo in itertools.product((0, mask), repeat=len(syms))}


def same(t, want, syms, width=16):
    """Is term `t` the function `want(*values) -> int` of the symbols, for all inputs?"""
    mask = (1 << width) - 1
    if not symbols(t) <= set(syms):
        return False
    for combo in itertools.product((0, mask), repeat=len(syms)):
        if value(t, dict(zip(syms, combo)), mask) != want(*combo) & mask:
            return False
    return True
