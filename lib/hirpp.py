"""Pretty printer for the exported HIR trees (diagnostics and --explain output)."""


def pat(p):
    k = p.get("k")
    if k == "pwild":
        return "_"
    if k == "pbind":
        s = "$" + p["name"]
        if "sub" in p:
            s += " @ " + pat(p["sub"])
        return s
    if k == "lit":
        return lit(p)
    if k == "ppath":
        return p.get("path", "?")
    if k == "prange":
        lo = pat(p["lo"]) if "lo" in p else ""
        hi = pat(p["hi"]) if "hi" in p else ""
        return f"{lo}..{'=' if p.get('incl') else ''}{hi}"
    if k == "por":
        return " | ".join(pat(x) for x in p["pats"])
    if k == "ptuple":
        return "(" + ", ".join(pat(x) for x in p["pats"]) + ")"
    if k == "pts":
        return p["path"].get("path", "?") + "(" + ", ".join(pat(x) for x in p["pats"]) + ")"
    if k == "pstruct":
        return p["path"].get("path", "?") + "{" + ", ".join(f"{f['name']}: {pat(f['p'])}" for f in p["fields"]) + "}"
    if k in ("pref", "pderef"):
        return "&" + pat(p["p"])
    if k == "pslice":
        return "[..]"
    return f"<{k}>"


def lit(e):
    t = e.get("t")
    if t == "str":
        return repr(e["v"])
    if t == "bytes":
        return "b" + repr(bytes(e["v"]))
    if t == "char":
        return repr(chr(e["v"]))
    return str(e.get("v"))


def callee_name(e):
    return e.get("resolved") or e.get("callee") or e.get("ctor") or "?"


def expr(e, ind=0):
    if e is None:
        return ""
    k = e.get("k")
    sp = "  " * ind
    if k == "lit":
        return lit(e)
    if k == "local":
        return "$" + e["name"]
    if k == "def":
        return e["path"]
    if k == "call":
        if "f" in e:
            f = "(" + expr(e["f"], ind) + ")"
        else:
            f = "[" + callee_name(e) + "]"
        return f + "(" + ", ".join(expr(a, ind) for a in e["args"]) + ")"
    if k == "bin":
        return "(" + expr(e["l"], ind) + " " + e["op"] + " " + expr(e["r"], ind) + ")"
    if k == "un":
        return "(" + e["op"] + " " + expr(e["e"], ind) + ")"
    if k == "cast":
        return "(" + expr(e["e"], ind) + " as " + e.get("ty", "?") + ")"
    if k == "field":
        return expr(e["e"], ind) + "." + e["name"]
    if k == "index":
        return expr(e["e"], ind) + "[" + expr(e["i"], ind) + "]"
    if k == "ref":
        return ("&mut " if e.get("mut") else "&") + expr(e["e"], ind)
    if k == "assign":
        return expr(e["l"], ind) + " := " + expr(e["r"], ind)
    if k == "assignop":
        return expr(e["l"], ind) + " " + e["op"] + "= " + expr(e["r"], ind)
    if k == "tuple":
        return "(" + ", ".join(expr(a, ind) for a in e["es"]) + ")"
    if k == "array":
        return "[" + ", ".join(expr(a, ind) for a in e["es"]) + "]"
    if k == "repeat":
        return "[" + expr(e["e"], ind) + "; " + str(e.get("len")) + "]"
    if k == "struct":
        s = e["path"].get("path", "?") + "{" + ", ".join(f"{f['name']}: {expr(f['e'], ind)}" for f in e["fields"])
        if "base" in e:
            s += ", .." + expr(e["base"], ind)
        return s + "}"
    if k == "if":
        s = "if " + expr(e["c"], ind) + " " + expr(e["t"], ind)
        if "e" in e:
            s += " else " + expr(e["e"], ind)
        return s
    if k == "letexpr":
        return "let " + pat(e["pat"]) + " = " + expr(e["init"], ind)
    if k == "let":
        s = "let " + pat(e["pat"])
        if "init" in e:
            s += " = " + expr(e["init"], ind)
        if "els" in e:
            s += " else " + expr(e["els"], ind)
        return s
    if k == "block":
        lines = []
        for s in e["stmts"]:
            lines.append(sp + "  " + expr(s, ind + 1) + ";")
        if "expr" in e:
            lines.append(sp + "  => " + expr(e["expr"], ind + 1))
        u = "unsafe " if "unsafe" in e else ""
        if e.get("label"):
            u = f"'{e['label']}: " + u
        return u + "{\n" + "\n".join(lines) + "\n" + sp + "}"
    if k == "loop":
        return f"loop<{e['src']}> " + expr(e["body"], ind)
    if k == "match":
        lines = []
        for a in e["arms"]:
            g = (" if " + expr(a["guard"], ind + 1)) if "guard" in a else ""
            lines.append(sp + "  " + pat(a["pat"]) + g + " => " + expr(a["body"], ind + 1) + ",")
        return f"match<{e['src']}> " + expr(e["scrut"], ind) + " {\n" + "\n".join(lines) + "\n" + sp + "}"
    if k == "closure":
        return "|" + ", ".join(pat(p) for p in e["params"]) + "| " + expr(e["body"], ind)
    if k == "break":
        return "break" + (f" '{e['label']}" if e.get("label") else "") + ((" " + expr(e["e"], ind)) if "e" in e else "")
    if k == "continue":
        return "continue"
    if k == "ret":
        return "return" + ((" " + expr(e["e"], ind)) if "e" in e else "")
    if k == "constblock":
        return "const " + expr(e["body"], ind)
    return f"<{k}>"
