#!/usr/bin/env python3
"""usage: show.py <facts.json | crate name> <path-substring> [--mir]"""
import json, sys
sys.path.insert(0, '/verif/lib')
import hirpp
import glob, os
arg = sys.argv[1]
if not os.path.isfile(arg):
    sys.path.insert(0, '/verif/lib')
    import extract
    arg = os.path.join(extract.ensure_facts(['default'])['default'], arg + '.json')
d = json.load(open(arg))
if '--raw' not in sys.argv and not os.environ.get("VERIF_NO_NORM"):
    import norm
    norm.normalise_crate(os.path.basename(arg)[:-5], d)
pat = sys.argv[2]
for b in d['bodies']:
    if pat in b['path']:
        print("===", b['path'], b['kind'], f"{b['file']}:{b['ln']}", b.get('sig',''))
        if 'hir' in b:
            print("params:", [hirpp.pat(p) for p in b['params']])
            print(hirpp.expr(b['hir']))
        if '--mir' in sys.argv and b.get('mir'):
            m = b['mir']
            for i,l in enumerate(m['locals']):
                print(f"  _{i}: {l['ty']}  {l.get('name','')}")
            for i,bb in enumerate(m['blocks']):
                print(f" bb{i}{' (cleanup)' if bb.get('cleanup') else ''}:")
                for s in bb['stmts']:
                    if s['k'] in ('live','dead'): continue
                    print("    ", json.dumps(s))
                print("    T", json.dumps(bb['term']))
