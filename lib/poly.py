"""Integer expressions as polynomials (normal form) — two expressions with the same polynomial compute the same value for every
input (before overflow), however they are parenthesised, ordered, split over temporaries or written with named constants.

poly(e, resolve) -> {monomial: coefficient}, monomial = tuple(sorted(symbol names)) (() = constant term).
`resolve(node)` maps a leaf the caller knows about to a symbol name, a polynomial, or None (then locals bound by a pure `let`
are followed, literals/consts are folded, and anything else becomes an opaque symbol named by its printed form when
`opaque=True`, or raises Unrecognised)."""
import hir
import hirpp
from core import Unrecognised


def const(c):
    return {(): c} if c else {}


def sym(name):
    return {(name,): 1}


def add(a, b, sign=1):
    out = dict(a)
    for m, c in b.items():
        v = out.get(m, 0) + sign * c
        if v:
            out[m] = v
        else:
            out.pop(m, None)
    return out


def mul(a, b):
    out = {}
    for m1, c1 in a.items():
        for m2, c2 in b.items():
            m = tuple(sorted(m1 + m2))
            v = out.get(m, 0) + c1 * c2
            if v:
                out[m] = v
            else:
                out.pop(m, None)
    return out


def as_const(p):
    if not p:
        return 0
    if list(p) == [()]:
        return p[()]
    return None


def show(p):
    if not p:
        return "0"
    parts = []
    for m, c in sorted(p.items()):
        parts.append((f"{c}" if not m else (f"{c}*" if c != 1 else "")) + "*".join(m))
    return " + ".join(parts)


def of_term(t):
    """The polynomial of an abstract-evaluator value: ("int", n), ("sym", name) or ("bin", Add|Sub|Mul, l, r)."""
    if t[0] == "int":
        return const(t[1])
    if t[0] == "sym":
        return sym(str(t[1]))
    if t[0] == "bin" and t[1] in ("Add", "Sub"):
        return add(of_term(t[2]), of_term(t[3]), 1 if t[1] == "Add" else -1)
    if t[0] == "bin" and t[1] == "Mul":
        return mul(of_term(t[2]), of_term(t[3]))
    raise Unrecognised(f"term {t} is not a polynomial")


def poly(e, resolve=None, lets=None, consts=None, opaque=False):
    lets = lets or {}
    consts = consts or {}

    def go(e):
        e = hir.simp(e)
        if not isinstance(e, dict):
            raise Unrecognised("empty expression")
        if resolve is not None:
            r = resolve(e)
            if isinstance(r, str):
                return sym(r)
            if isinstance(r, dict):
                return r
        k = e.get("k")
        if k == "lit" and e.get("t") == "int":
            return const(e["v"])
        if k == "cast":
            return go(e["e"])
        if k == "def" and e.get("path") in consts and isinstance(consts[e["path"]], int):
            return const(consts[e["path"]])
        if k == "local":
            key = (e.get("name"), e.get("id"))
            if key in lets:
                return go(lets[key])
            if e.get("name") in lets:
                return go(lets[e["name"]])
            return sym("$" + e["name"])
        if k == "bin" and "callee" not in e:
            op = e["op"]
            if op in ("Add", "Sub"):
                return add(go(e["l"]), go(e["r"]), 1 if op == "Add" else -1)
            if op == "Mul":
                return mul(go(e["l"]), go(e["r"]))
            if op == "Shl":
                c = as_const(go(e["r"]))
                if c is not None and 0 <= c < 64:
                    return mul(go(e["l"]), const(1 << c))
        if opaque:
            return sym(hirpp.expr(e))
        raise Unrecognised(f"`{hirpp.expr(e)[:70]}` (line {e.get('ln', '?')}) is not a polynomial over the inputs")
    return go(e)
