"""Framework: facts context, rule reporting with fail-closed semantics, evidence, known findings."""
import json
import os
import time
import traceback

import extract

VERIF = extract.VERIF


class AnchorMissing(Exception):
    """An anchored function/item/shape the rule needs was not found (fail closed)."""


class Unrecognised(Exception):
    """A construct inside an anchored function that the rule does not understand (fail closed)."""


class Facts:
    def __init__(self, fdir):
        self.fdir = fdir
        self._crates = {}

    def crate(self, name):
        if name not in self._crates:
            p = os.path.join(self.fdir, name + ".json")
            if not os.path.exists(p):
                raise AnchorMissing(f"no facts for crate {name}")
            with open(p) as f:
                d = json.load(f)
            import norm
            norm.normalise_crate(name, d)
            d["_bodies"] = {}
            for b in d["bodies"]:
                d["_bodies"].setdefault(b["path"], []).append(b)
            d["_items"] = {}
            for it in d["items"]:
                d["_items"].setdefault(it["path"], []).append(it)
            self._crates[name] = d
        return self._crates[name]

    def bodies(self, crate):
        return self.crate(crate)["bodies"]

    def items(self, crate):
        return self.crate(crate)["items"]

    def body(self, crate, path):
        """Exactly one body with this def path (fail closed otherwise)."""
        bs = self.crate(crate)["_bodies"].get(path, [])
        if len(bs) != 1:
            raise AnchorMissing(f"{crate}: expected exactly one body `{path}`, found {len(bs)}")
        return bs[0]

    def bodies_matching(self, crate, pred):
        return [b for b in self.bodies(crate) if pred(b)]

    def find_body(self, crate, suffix, kind=None):
        bs = [b for b in self.bodies(crate) if b["path"].endswith(suffix) and (kind is None or b["kind"] == kind)]
        if len(bs) != 1:
            raise AnchorMissing(f"{crate}: expected exactly one body ending `{suffix}`, found {[b['path'] for b in bs]}")
        return bs[0]

    def item(self, crate, path, dk=None):
        its = [i for i in self.crate(crate)["_items"].get(path, []) if dk is None or i["dk"] == dk]
        if len(its) != 1:
            raise AnchorMissing(f"{crate}: expected exactly one item `{path}` ({dk}), found {len(its)}")
        return its[0]

    def items_of_kind(self, crate, dk):
        return [i for i in self.items(crate) if i["dk"] == dk]


def loc(body, node=None):
    ln = (node or {}).get("ln") if isinstance(node, dict) else None
    return f"{body.get('file', '?')}:{ln if ln is not None else body.get('ln', '?')}"


class Report:
    """Collects obligations. Every obligation has a key `Cxx|rule|anchor|instance` (no line numbers)."""

    def __init__(self, prop, tier):
        self.prop = prop
        self.tier = tier
        self.obligations = []  # dicts: key, ok, detail, where, rule
        self.notes = []
        self.cells = 0  # table cells / call sites evaluated
        self.functions = set()
        self.t0 = time.time()

    def key(self, rule, anchor, instance):
        return f"{self.prop}|{rule}|{anchor}|{instance}".replace(" ", "_")

    def _add(self, o):
        # one obligation per key: a key is violated if any of its instances is
        for p in self.obligations:
            if p["key"] == o["key"]:
                if p["ok"] and not o["ok"]:
                    p.update(o)
                return
        self.obligations.append(o)

    def ok(self, rule, anchor, instance, detail="", where=""):
        self._add({"key": self.key(rule, anchor, instance), "rule": rule, "ok": True, "detail": detail, "where": where})

    def bad(self, rule, anchor, instance, detail, where=""):
        self._add({"key": self.key(rule, anchor, instance), "rule": rule, "ok": False, "detail": detail, "where": where})

    def check(self, cond, rule, anchor, instance, detail="", where=""):
        if cond:
            self.ok(rule, anchor, instance, detail, where)
        else:
            self.bad(rule, anchor, instance, detail, where)
        return cond

    def note(self, text):
        self.notes.append(text)

    def count(self, n=1):
        self.cells += n

    def fn(self, path):
        self.functions.add(path)

    def floor(self, rule, minimum):
        """Fail closed when a rule matched fewer instances than were counted by hand on the reference tree."""
        n = sum(1 for o in self.obligations if o["rule"] == rule)
        if n < minimum:
            self.bad(rule + ".floor", "-", f"count>={minimum}",
                     f"rule `{rule}` produced {n} instances, floor is {minimum}: the anchor has moved or the rule "
                     f"no longer matches (fail closed)")
        else:
            self.ok(rule + ".floor", "-", f"count>={minimum}", f"{n} instances")

    def scoped(self, suffix):
        """A view of this report whose rule names carry `@suffix` (used for the extra configurations of the thorough tier);
        floors are not applied to scoped rules."""
        return _Scoped(self, suffix)

    def guarded(self, rule, anchor, fn):
        """Run one rule; a missing anchor or an unrecognised construct is a violation, never a silent pass."""
        try:
            fn()
        except AnchorMissing as e:
            self.bad(rule, anchor, "anchor-missing", f"anchor-missing: {e}")
        except Unrecognised as e:
            self.bad(rule, anchor, "unrecognised-idiom", f"unrecognised-idiom: {e}")
        except (KeyError, IndexError, TypeError, ValueError, AttributeError, AssertionError) as e:
            tb = traceback.format_exc().splitlines()[-4:]
            self.bad(rule, anchor, "unrecognised-shape",
                     f"unrecognised-shape ({type(e).__name__}: {e}) — the anchored code no longer has the shape the "
                     f"rule reads; fail closed. {' / '.join(t.strip() for t in tb)}")


class _Scoped:
    def __init__(self, base, suffix):
        self._b, self._s = base, suffix
        self.prop, self.tier = base.prop, base.tier

    def _r(self, rule):
        return f"{rule}@{self._s}"

    def ok(self, rule, anchor, instance, detail="", where=""):
        self._b.ok(self._r(rule), anchor, instance, detail, where)

    def bad(self, rule, anchor, instance, detail, where=""):
        self._b.bad(self._r(rule), anchor, instance, detail, where)

    def check(self, cond, rule, anchor, instance, detail="", where=""):
        return self._b.check(cond, self._r(rule), anchor, instance, detail, where)

    def note(self, text):
        self._b.note(f"[{self._s}] {text}")

    def count(self, n=1):
        self._b.count(n)

    def fn(self, path):
        self._b.fn(path)

    def floor(self, rule, minimum):
        pass

    def guarded(self, rule, anchor, fn):
        self._b.guarded(self._r(rule), anchor, fn)

    def scoped(self, suffix):
        return _Scoped(self._b, f"{self._s}.{suffix}")


class Filtered:
    """A view of a report that keeps only the obligations `keep(rule, anchor, instance)` accepts (used where one property's
    check evaluates part of another property's rule: only the part its own chain of reasoning rests on)."""

    def __init__(self, base, keep):
        self._b, self._keep = base, keep
        self.prop, self.tier = base.prop, base.tier

    def ok(self, rule, anchor, instance, detail="", where=""):
        if self._keep(rule, anchor, instance):
            self._b.ok(rule, anchor, instance, detail, where)

    def bad(self, rule, anchor, instance, detail, where=""):
        if self._keep(rule, anchor, instance):
            self._b.bad(rule, anchor, instance, detail, where)

    def check(self, cond, rule, anchor, instance, detail="", where=""):
        if self._keep(rule, anchor, instance):
            return self._b.check(cond, rule, anchor, instance, detail, where)
        return cond

    def note(self, text):
        self._b.note(text)

    def count(self, n=1):
        self._b.count(n)

    def fn(self, path):
        self._b.fn(path)

    def floor(self, rule, minimum):
        pass

    def guarded(self, rule, anchor, fn):
        self._b.guarded(rule, anchor, fn)

    def scoped(self, suffix):
        return Filtered(self._b.scoped(suffix), self._keep)


def load_known(path=None):
    path = path or os.path.join(VERIF, "known_findings.txt")
    known = {}
    fixed = []
    if os.path.exists(path):
        for line in open(path):
            line = line.strip()
            if line.startswith("finding:"):
                rest = line[len("finding:"):].strip()
                key, _, what = rest.partition(" ")
                known[key] = what.strip()
            elif line.startswith("fixed:"):
                fixed.append(line)
    return known, fixed


def finish(report, meta):
    """Print results, write evidence, return exit code."""
    known, _ = load_known()
    prop = report.prop
    viol = [o for o in report.obligations if not o["ok"]]
    unlisted = [o for o in viol if o["key"] not in known]
    listed = [o for o in viol if o["key"] in known]
    evdir = os.environ.get("VERIF_EVIDENCE_DIR") or os.path.join(VERIF, "evidence")
    os.makedirs(evdir, exist_ok=True)
    for o in listed:
        print(f"KNOWN-FINDING: property={prop} {o['key']} {known[o['key']]}")
    replay = os.path.join(evdir, f"{prop}.violations.json")
    if unlisted:
        with open(replay, "w") as f:
            json.dump({"property": prop, "violations": unlisted}, f, indent=1)
        for o in unlisted:
            print(f"  violation {o['key']}\n      at {o['where']}\n      {o['detail']}")
        print(f"VIOLATION property={prop} replay={replay}")
    elif os.path.exists(replay):
        os.remove(replay)
    rules = sorted({o["rule"] for o in report.obligations})
    per_rule = {r: sum(1 for o in report.obligations if o["rule"] == r) for r in rules}
    samples = []
    seen = set()
    for o in report.obligations:
        if o["rule"] in seen or not o["ok"]:
            continue
        seen.add(o["rule"])
        samples.append({"key": o["key"], "where": o["where"], "detail": o["detail"][:300]})
    for o in viol[:10]:
        samples.append({"key": o["key"], "where": o["where"], "detail": o["detail"][:300], "violation": True,
                        "known_finding": o["key"] in known})
    n_ob = len(report.obligations)
    n_ok = n_ob - len(viol)
    distinct = len({o["key"] for o in report.obligations})
    ev = {
        "property_id": prop,
        "tier": report.tier,
        "seed": int(os.environ.get("VERIF_SEED", "0") or 0),
        "level": "other",
        "coverage": {
            "explanation": meta.get("explanation", ""),
            "rule": meta.get("rule", "one obligation per rule instance (anchor x instance); distinct = distinct "
                                     "keys; every instance is non-trivial: it names a construct of /repo"),
            "obligations": n_ob,
            "discharged": n_ok,
            "evaluations": max(n_ob + report.cells, 1),
            "distinct_nontrivial": distinct,
            "table_cells_and_sites": report.cells,
            "functions_analysed": sorted(report.functions),
            "instances_per_rule": per_rule,
            "samples": samples[:40],
            "exhaustive": bool(meta.get("exhaustive", False)),
            "trusted_base": meta.get("trusted_base", [
                "rustc nightly front end (name resolution, type check, MIR construction) via rustc_private driver",
                "the independent specification tables under /verif/spec",
                "the HIR idiom normaliser in /verif/lib/hir.py",
            ]),
            "checker_cmd": meta.get("checker_cmd", f"./check {prop} --tier {report.tier}"),
            "notes": report.notes[:40],
            "configurations": meta.get("configurations", ["default"]),
            "repo": extract.repo_root(),
            "known_findings_hit": [o["key"] for o in listed],
            "selftest": meta.get("selftest"),
        },
        "assumptions": meta.get("assumptions", []),
        "wall_s": round(time.time() - report.t0 + meta.get("extract_wall_s", 0.0), 3),
        "violations": len(unlisted),
    }
    with open(os.path.join(evdir, f"{prop}.json"), "w") as f:
        json.dump(ev, f, indent=1)
    print(f"[{prop}] tier={report.tier} obligations={n_ob} discharged={n_ok} known={len(listed)} "
          f"violations={len(unlisted)} cells={report.cells} functions={len(report.functions)}")
    return 1 if unlisted else 0
