"""Finite enum-valued dataflow over structured HIR.

Tracks, for one local variable of a fieldless enum type, the set of variants it may hold (powerset domain) through
sequences, if/else, match (with pattern refinement), loops (fixpoint) and break/continue/return.  It is an abstract
interpretation of the structure of the function: no input is supplied and nothing is executed.
"""
import hir
from core import Unrecognised


class Flow:
    def __init__(self, var, variants, enum_path):
        self.var = var
        self.all = frozenset(variants)
        self.enum_path = enum_path
        self.arm_in = {}    # id(arm) -> set at arm entry (after pattern refinement)
        self.arm_out = {}   # id(arm) -> set when control leaves the arm (fall-through or break/continue out of it)
        self.at = {}        # id(node) -> set before evaluating node (for selected statement nodes)
        self.loop_exit = {}  # id(loop node) -> set after the loop
        self.returns = []

    # environment = frozenset of variants, or None for "unreachable"
    def join(self, *envs):
        es = [e for e in envs if e is not None]
        if not es:
            return None
        out = frozenset()
        for e in es:
            out |= e
        return out

    def variant_of(self, e):
        p = hir.def_path(e)
        if p and p.startswith(self.enum_path + "::"):
            return p.split("::")[-1]
        return None

    def refine_by_pat(self, env, pat):
        k = pat.get("k")
        if k == "ppath":
            v = self.variant_of(pat)
            if v is None:
                return env
            return env & frozenset([v])
        if k == "por":
            out = frozenset()
            for p in pat["pats"]:
                out |= self.refine_by_pat(env, p)
            return out
        return env

    def cond_refine(self, env, c, val):
        c = hir.simp(c)
        if c.get("k") == "bin" and c.get("op") in ("Eq", "Ne"):
            for a, b in ((c["l"], c["r"]), (c["r"], c["l"])):
                if hir.simp(a).get("k") == "local" and hir.simp(a)["name"] == self.var:
                    v = self.variant_of(b)
                    if v is not None:
                        eq = (c["op"] == "Eq") == val
                        return env & frozenset([v]) if eq else env - frozenset([v])
        if c.get("k") == "bin" and c.get("op") == "And" and val:
            return self.cond_refine(self.cond_refine(env, c["l"], True), c["r"], True)
        if c.get("k") == "bin" and c.get("op") == "Or" and not val:
            return self.cond_refine(self.cond_refine(env, c["l"], False), c["r"], False)
        return env

    # returns (env_out, breaks, continues)
    def run(self, e, env):
        if env is None or not isinstance(e, dict):
            return env, [], []
        k = e.get("k")
        self.at[id(e)] = env
        if k == "block":
            brk, cont = [], []
            seq = list(e.get("stmts", []))
            if "expr" in e:
                seq.append(e["expr"])
            for s in seq:
                env, b, c = self.run(s, env)
                brk += b
                cont += c
                if env is None:
                    break
            return env, brk, cont
        if k == "let":
            if "init" in e:
                env, b, c = self.run(e["init"], env)
                if e["pat"].get("k") == "pbind" and e["pat"]["name"] == self.var and env is not None:
                    v = self.variant_of(e["init"])
                    env = frozenset([v]) if v else self.all
                return env, b, c
            return env, [], []
        if k in ("assign", "assignop"):
            env, b, c = self.run(e["r"], env)
            l = hir.simp(e["l"])
            if l.get("k") == "local" and l["name"] == self.var and env is not None:
                v = self.variant_of(e["r"]) if k == "assign" else None
                env = frozenset([v]) if v else self.all
            return env, b, c
        if k == "if":
            env0, b0, c0 = self.run(e["c"], env)
            t_env = self.cond_refine(env0, e["c"], True) if env0 is not None else None
            f_env = self.cond_refine(env0, e["c"], False) if env0 is not None else None
            t_out, b1, c1 = self.run(e["t"], t_env if t_env else None)
            if "e" in e:
                f_out, b2, c2 = self.run(e["e"], f_env if f_env else None)
            else:
                f_out, b2, c2 = (f_env if f_env else None), [], []
            return self.join(t_out, f_out), b0 + b1 + b2, c0 + c1 + c2
        if k == "match":
            env0, brk, cont = self.run(e["scrut"], env)
            if env0 is None:
                return None, brk, cont
            sc = hir.simp(e["scrut"])
            pos = None
            if sc.get("k") == "local" and sc["name"] == self.var:
                pos = "whole"
            elif sc.get("k") == "tuple":
                for i, x in enumerate(sc["es"]):
                    if hir.simp(x).get("k") == "local" and hir.simp(x)["name"] == self.var:
                        pos = i
            outs = []
            for a in e["arms"]:
                aenv = env0
                if pos == "whole":
                    aenv = self.refine_by_pat(env0, a["pat"])
                elif pos is not None:
                    alts = hir.pat_alternatives(a["pat"])
                    acc = frozenset()
                    for alt in alts:
                        if alt.get("k") == "ptuple":
                            acc |= self.refine_by_pat(env0, alt["pats"][pos])
                        else:
                            acc |= env0
                    aenv = acc
                if not aenv:
                    self.arm_in[id(a)] = frozenset()
                    self.arm_out[id(a)] = frozenset()
                    continue
                self.arm_in[id(a)] = aenv
                if "guard" in a:
                    aenv, b, c = self.run(a["guard"], aenv)
                    brk += b
                    cont += c
                out, b, c = self.run(a["body"], aenv)
                self.arm_out[id(a)] = self.join(out, *[x[1] for x in b], *c) or frozenset()
                brk += b
                cont += c
                outs.append(out)
            return self.join(*outs), brk, cont
        if k == "loop":
            head = env
            for _ in range(64):
                out, brk, cont = self.run(e["body"], head)
                new_head = self.join(head, out, *cont)
                if new_head == head:
                    break
                head = new_head
            else:
                raise Unrecognised("enum dataflow did not converge")
            mine = [b for b in brk if b[0] is None or b[0] == e.get("label")]
            outer = [b for b in brk if not (b[0] is None or b[0] == e.get("label"))]
            exit_env = self.join(*[b[1] for b in mine])
            self.loop_exit[id(e)] = exit_env
            return exit_env, outer, []
        if k == "break":
            env2, b, c = (self.run(e["e"], env) if "e" in e else (env, [], []))
            return None, b + [(e.get("label"), env2)], c
        if k == "continue":
            if "label" in e:
                raise Unrecognised("labelled continue in enum dataflow")
            return None, [], [env]
        if k == "ret":
            self.returns.append(env)
            return None, [], []
        if k == "closure":
            for n in hir.walk(e["body"]):
                if n.get("k") in ("assign", "assignop") and hir.is_local(n["l"], self.var):
                    raise Unrecognised("tracked variable assigned inside a closure")
            return env, [], []
        # generic expression: evaluate children in order
        brk, cont = [], []
        for ch in hir.children(e):
            env, b, c = self.run(ch, env)
            brk += b
            cont += c
            if env is None:
                break
        if e.get("ty") == "!" and k == "call":
            return None, brk, cont
        return env, brk, cont
